#!/usr/bin/env python3
"""Confirms a seeded change produced by a sub-agent and runs the registered check against it.

usage: seedeval.py <id> [--tier quick|thorough] [--no-confirm]
  <id> like C07-1: expects /tmp/mut/out/<id>.diff, <id>_demo_test.go, <id>.json
Steps: (1) in a scratch worktree: apply, build, baseline, demo fails with / passes without the change;
       (2) apply to /repo, run bin/gosym check <prop>, undo;  (3) record under /verif/seeded/<id>/.
"""
import json, os, subprocess, sys, shutil, time

ENV = dict(os.environ, GOFLAGS='-mod=mod', GOPROXY='off', GOSUMDB='off', GOTOOLCHAIN='local')
OUT = os.environ.get('SEED_OUT', '/tmp/mut/out')


def sh(cmd, cwd=None, timeout=3600):
    p = subprocess.run(cmd, shell=True, cwd=cwd, env=ENV, capture_output=True, text=True, errors='replace', timeout=timeout)
    return p.returncode, p.stdout + p.stderr


def main():
    mid = sys.argv[1]
    tier = 'quick'
    confirm = True
    if '--tier' in sys.argv:
        tier = sys.argv[sys.argv.index('--tier') + 1]
    if '--no-confirm' in sys.argv:
        confirm = False
    confirm_only = '--confirm-only' in sys.argv
    prop = mid.split('-')[0]
    diff = f'{OUT}/{mid}.diff'
    demo = f'{OUT}/{mid}_demo_test.go'
    meta = json.load(open(f'{OUT}/{mid}.json'))
    res = {'id': mid, 'property': prop, 'title': meta.get('title'), 'needs': meta.get('needs'), 'agent_meta': meta}
    sdir = f'/verif/seeded/{mid}'
    if confirm:
        wt = f'/tmp/mut/eval_{mid}'
        sh(f'git -C /repo worktree remove --force {wt}')
        rc, o = sh(f'git -C /repo worktree add -q --detach {wt} HEAD')
        try:
            rc, o = sh(f'git apply {diff}', cwd=wt)
            res['applies'] = rc == 0
            if rc != 0:
                res['error'] = o[-500:]
                print(json.dumps(res, indent=1))
                return 2
            rc, o = sh(f'/tmp/mut/check_baseline.sh {wt}')
            res['baseline_passes_with_change'] = rc == 0
            res['baseline_output'] = o.strip().splitlines()[-1] if o.strip() else ''
            pdir = meta.get('demo_package_dir', 'interp').strip('./') or '.'
            tname = meta.get('demo_test_name')
            dst = os.path.join(wt, pdir, f'zz_seed_{mid.replace("-", "_")}_demo_test.go')
            shutil.copy(demo, dst)
            pkg = './' + pdir if pdir != '.' else '.'
            rc1, o1 = sh(f'go test -vet=off -count=1 -run "^{tname}$" {pkg}', cwd=wt)
            res['demo_fails_with_change'] = rc1 != 0 and 'FAIL' in o1
            sh(f'git apply -R {diff}', cwd=wt)
            rc2, o2 = sh(f'go test -vet=off -count=1 -run "^{tname}$" {pkg}', cwd=wt)
            res['demo_passes_without'] = rc2 == 0 and 'ok' in o2
            res['demo_output_with_change'] = o1[-600:]
        finally:
            sh(f'git -C /repo worktree remove --force {wt}')
        res['confirmed'] = bool(res.get('baseline_passes_with_change') and res.get('demo_fails_with_change') and res.get('demo_passes_without'))
    if confirm_only:
        os.makedirs(sdir, exist_ok=True)
        shutil.copy(diff, f'{sdir}/patch.diff')
        shutil.copy(demo, f'{sdir}/demo_test.go')
        prev = json.load(open(f'{sdir}/meta.json')) if os.path.exists(f'{sdir}/meta.json') else {}
        prev.update({'id': mid, 'breaks_property': prop, 'title': meta.get('title'), 'needs_to_manifest': meta.get('needs'),
                     'files_changed': meta.get('files_changed'), 'demo_package_dir': meta.get('demo_package_dir'), 'demo_test_name': meta.get('demo_test_name'),
                     'confirmed_by_me': {k: res.get(k) for k in ['applies', 'baseline_passes_with_change', 'demo_fails_with_change', 'demo_passes_without', 'confirmed']},
                     'source': 'written by an independent sub-agent that saw only the property text'})
        prev.setdefault('check_runs', [])
        json.dump(prev, open(f'{sdir}/meta.json', 'w'), indent=1)
        print(json.dumps({k: res[k] for k in res if k not in ('agent_meta', 'demo_output_with_change')}, indent=1))
        return 0
    # run the registered check against the change
    rc, o = sh('git -C /repo status --short')
    if o.strip():
        print('REPO NOT CLEAN', o)
        return 2
    rc, o = sh(f'git -C /repo apply {diff}')
    if rc != 0:
        res['error'] = 'does not apply to /repo: ' + o[-300:]
        print(json.dumps(res, indent=1))
        return 2
    t0 = time.time()
    try:
        rc, o = sh(f'GOSYM_EVIDENCE_DIR=/tmp/mut/evidence bin/gosym check {prop} --tier {tier}', cwd='/verif', timeout=7200)
    finally:
        sh('git -C /repo checkout -- .')
        sh('git -C /repo clean -fdq')
    res['check_tier'] = tier
    res['check_exit'] = rc
    res['check_wall_s'] = round(time.time() - t0, 1)
    res['check_lines'] = [l[:400] for l in o.splitlines() if l.startswith(('VIOLATION', 'INCONCLUSIVE', 'KNOWN', 'check ', '  harness', 'gosym:', 'LOAD-ERROR'))][:14]
    res['detected'] = rc == 1 and any(l.startswith('VIOLATION') for l in o.splitlines())
    os.makedirs(sdir, exist_ok=True)
    shutil.copy(diff, f'{sdir}/patch.diff')
    shutil.copy(demo, f'{sdir}/demo_test.go')
    prev = {}
    if os.path.exists(f'{sdir}/meta.json'):
        prev = json.load(open(f'{sdir}/meta.json'))
    runs = prev.get('check_runs', [])
    runs.append({'tier': tier, 'exit': rc, 'detected': res['detected'], 'wall_s': res['check_wall_s'], 'lines': res['check_lines'], 'verif_commit': sh('git -C /verif rev-parse --short HEAD')[1].strip()})
    m = {
        'id': mid, 'breaks_property': prop, 'title': meta.get('title'), 'needs_to_manifest': meta.get('needs'),
        'files_changed': meta.get('files_changed'), 'demo_package_dir': meta.get('demo_package_dir'), 'demo_test_name': meta.get('demo_test_name'),
        'confirmed_by_me': {k: res.get(k, prev.get('confirmed_by_me', {}).get(k)) for k in ['applies', 'baseline_passes_with_change', 'demo_fails_with_change', 'demo_passes_without', 'confirmed']},
        'what_i_ran': ['scratch worktree: git apply patch.diff; /tmp/mut/check_baseline.sh; go test -run <demo> (fails); git apply -R; go test -run <demo> (passes)',
                       'git -C /repo apply patch.diff; bin/gosym check %s --tier <tier>; git -C /repo checkout -- .' % prop],
        'check_runs': runs,
        'source': 'written by an independent sub-agent that saw only the property text',
    }
    json.dump(m, open(f'{sdir}/meta.json', 'w'), indent=1)
    print(json.dumps({k: res[k] for k in res if k not in ('agent_meta', 'demo_output_with_change')}, indent=1))
    return 0


if __name__ == '__main__':
    sys.exit(main())
