#!/bin/bash
# Runs the repository's own test suite with the verif guard OFF (no build tag, no overlays)
# and checks that every test of BASELINE.json's stable_pass list passes.
export GOFLAGS=-mod=mod GOPROXY=off GOSUMDB=off GOTOOLCHAIN=local
cd /repo || exit 2
out=$(mktemp)
go test -json -vet=off -count=1 -timeout 25m ./... > "$out" 2>/dev/null
python3 - "$out" <<'P'
import json,sys
passed=set()
for l in open(sys.argv[1]):
    try: e=json.loads(l)
    except Exception: continue
    if e.get('Action')=='pass' and e.get('Test'):
        passed.add(e['Package']+'::'+e['Test'])
base=json.load(open('/root/.vp/BASELINE.json'))['stable_pass']
missing=[t for t in base if t not in passed]
print('baseline tests: %d expected, %d passing, %d missing'%(len(base),len(base)-len(missing),len(missing)))
for t in missing[:20]: print('MISSING',t)
sys.exit(1 if missing else 0)
P
rc=$?
rm -f "$out"
exit $rc
