#!/bin/bash
# runs every property's check at the given tier and prints one summary line each
export GOFLAGS=-mod=mod GOPROXY=off GOSUMDB=off GOTOOLCHAIN=local
tier=${1:-quick}
shift
props=${@:-C01 C02 C03 C04 C05 C06 C07 C08 C09 C10 C11 C12 C13 C14 C15 C16 C17 C18 C19 C20}
for p in $props; do
  out=$(bin/gosym check $p --tier $tier 2>&1)
  rc=$?
  echo "$p rc=$rc $(echo "$out" | tail -1)"
  echo "$out" | grep -E "^(VIOLATION|KNOWN-FINDING|INCONCLUSIVE)" | cut -c1-260 | sed 's/^/    /'
done
