#!/usr/bin/env python3
"""Generates /verif/MANIFEST.json from the harness registry and the table below."""
import json, os, sys

V = '/verif'
reg = json.load(open(V + '/harness/registry.json'))
props = [json.loads(l) for l in open(V + '/properties.jsonl')]

# property id -> (claimed?, level text, level note, design ref)
TEXT = json.load(open(V + '/tools/manifest_text.json'))

ENV = 'GOFLAGS=-mod=mod GOPROXY=off GOSUMDB=off GOTOOLCHAIN=local'
checks = []
na = []
for p in props:
    pid = p['id']
    t = TEXT.get(pid, {})
    hs = [h for h in reg if h['Prop'] == pid]
    if not t.get('claimed') or not hs:
        na.append({'property_id': pid, 'reason': t.get('reason', 'no solver-based check registered yet (under construction)')})
        continue
    checks.append({
        'property_id': pid,
        'quick_cmd': 'bin/gosym check %s --tier quick' % pid,
        'thorough_cmd': 'bin/gosym check %s --tier thorough' % pid,
        'evidence_file': 'evidence/%s.json' % pid,
        'replay_cmd_template': 'bin/gosym replay {path}',
        'engine': 'gosym',
        'level_claimed': {
            'category': 'model_checking',
            'text': t['text'],
            'design_ref': 'DESIGN.md section 6, ' + pid,
        },
        'level_note': t['note'],
        'technique': t.get('technique', 'bounded symbolic execution of the real functions from go/ssa, SMT (z3/cvc5) decides every path condition and assertion, native replay of each model'),
    })

m = {
    'version': 1,
    'setup_cmd': 'cd engine && %s go build -o ../bin/gosym . && cd .. && bin/gosym list >/dev/null' % ENV,
    'hooks': {
        'guard': 'verif',
        'enable': 'no hook commits: harnesses are injected as virtual files (go/packages Overlay for the encoder, go test -overlay for native replay); /repo is never modified',
        'baseline_off_cmd': 'tools/baseline_off.sh',
        'source_commits': [],
        'add_only': True,
    },
    'engines': [{
        'name': 'gosym',
        'path': 'engine/',
        'serves_properties': [c['property_id'] for c in checks],
        'kind_free_text': 'bounded symbolic executor for Go written for this task: go/ssa (x/tools v0.29.0) of /repo\'s current tree -> SMT-LIB2 terms (bit-vectors, IEEE floats), path exploration with a persistent z3/cvc5 process per worker, 16 in-process workers sharing the SSA program and the term table, native replay of every model via go test -overlay',
    }],
    'checks': checks,
    'not_applicable': na,
    'notes': 'Every claimed property is decided by the same technique (solver-based checking of the real code). Bounds, stubs and what lies outside each claim are in DESIGN.md section 6 and in each evidence file. known_findings.json lists recorded defects and fix commits.',
}
json.dump(m, open(V + '/MANIFEST.json', 'w'), indent=1)
print('claimed:', [c['property_id'] for c in checks])
print('not applicable:', [n['property_id'] for n in na])
