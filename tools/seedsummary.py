#!/usr/bin/env python3
"""Writes seeded/SUMMARY.md from the recorded check runs in seeded/*/meta.json."""
import json, glob, os
rows = []
for f in sorted(glob.glob('/verif/seeded/*/meta.json')):
    m = json.load(open(f))
    runs = m.get('check_runs', [])
    first = runs[0] if runs else {}
    last = runs[-1] if runs else {}
    what = ''
    for l in last.get('lines', []):
        if l.strip().startswith('harness='):
            what = l.strip().split(' failed')[0].replace('harness=', '')
            break
    rows.append((m['id'], m['breaks_property'], (m.get('title') or '').replace('|', '/')[:150], (m.get('needs_to_manifest') or '').replace('|', '/')[:160],
                 'yes' if m.get('confirmed_by_me', {}).get('confirmed') else 'no', 'yes' if first.get('detected') else 'no', 'yes' if last.get('detected') else 'NO', what, last.get('tier', ''), last.get('wall_s', '')))
det = sum(1 for r in rows if r[6] == 'yes')
out = ['# Seeded changes and which check catches them', '',
       'Each change was written by an independent sub-agent that saw only the text of one property, confirmed by me in a scratch worktree',
       '(applies, builds, all 2544 baseline tests pass, its demonstration fails with the change and passes without it), then applied to /repo,',
       'checked with the registered quick command of the property it breaks, and removed again.  "first run" is the verdict of the check as it',
       'was when the change arrived, "now" the verdict of the committed check.', '',
       '%d changes, %d detected by the committed quick checks.' % (len(rows), det), '',
       '| id | title | needs to manifest | confirmed | first run | now | caught by harness | wall s |', '|---|---|---|---|---|---|---|---|']
for r in rows:
    out.append('| %s | %s | %s | %s | %s | %s | %s | %s |' % (r[0], r[2], r[3], r[4], r[5], r[6], r[7], r[9]))
open('/verif/seeded/SUMMARY.md', 'w').write('\n'.join(out) + '\n')
print(len(rows), det)
