#!/usr/bin/env python3
import json,sys
e=json.load(open('/verif/evidence/%s.json'%sys.argv[1]))
c=e['coverage']
print('wall',round(e['wall_s'],1),'load',round(c.get('load_and_ssa_build_s',0),1),'viol',e['violations'])
for h in c['harnesses']:
    print('%-28s paths=%-7d q=%-8d solver=%-7.1f wall=%-6.1f asserts=%d/%d %s %s'%(h['harness'],h['paths'],h['solver_queries'],h['solver_time_s'],h['cpu_wall_s_all_workers'],h['assertion_checks_unsat'],h['assertion_checks'],'' if h['complete'] else 'INCOMPLETE',h.get('inconclusive_paths') or ''))
    for k,v in (h.get('inconclusive_where') or {}).items(): print('     where:',k,'::',v[:300].replace('\n',' | '))
