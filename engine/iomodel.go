package main

import (
	"fmt"
	"go/token"
	"go/types"
	"strings"

	"golang.org/x/tools/go/ssa"
)

// ---------- environment model: files and processes ----------
//
// *os.File values handed out by verifNewFile (or by the modelled os.OpenFile, StdinPipe, StdoutPipe)
// are backed by an in-engine byte log; every operation is recorded in the event list.

type fileModel struct {
	named   bool // a file of the in-engine file system: content is both what can be read and what was written
	wpos    int
	appendM bool
	shared  *fileModel // for handles on named files: the file itself
	id      int
	content []*Term // bytes available for reading
	rpos    int
	written []*Term
	closed  bool
	failAt  int // the failAt-th write fails (0 = never)
	writes  int
	kind    string
}

func (x *Exec) newFile(kind string, content []*Term) Ptr {
	ft := x.prog.ImportedPackage("os").Type("File").Type()
	o := newObj(ft).(*StructObj)
	if x.files == nil {
		x.files = map[*StructObj]*fileModel{}
	}
	x.fileSeq++
	x.files[o] = &fileModel{id: x.fileSeq, content: content, kind: kind}
	return Ptr{o: o}
}

func (x *Exec) fileOf(v Value) *fileModel {
	p, ok := v.(Ptr)
	if !ok || p.o == nil {
		return nil
	}
	so, ok := p.o.(*StructObj)
	if !ok {
		return nil
	}
	return x.files[so]
}

func (x *Exec) event(format string, a ...interface{}) {
	x.events = append(x.events, fmt.Sprintf(format, a...))
}

// cmdConfigEvent logs how a command was configured when it is started (fields of the real exec.Cmd struct)
func (x *Exec) cmdConfigEvent(cmd Value) {
	p, ok := cmd.(Ptr)
	if !ok || p.o == nil {
		return
	}
	co, ok := p.o.(*StructObj)
	if !ok {
		return
	}
	st := x.prog.ImportedPackage("os/exec").Type("Cmd").Type().Underlying().(*types.Struct)
	for i := 0; i < st.NumFields() && i < len(co.f); i++ {
		if st.Field(i).Name() == "WaitDelay" {
			if t, ok := load(co.f[i]).(*Term); ok && t.isC {
				x.event("waitdelay:%d", int64(t.c))
			}
		}
	}
}

func (x *Exec) notExistErr() Value {
	g := x.prog.ImportedPackage("io/fs").Var("ErrNotExist")
	return load(x.global(g))
}

func (x *Exec) ioEOF() Value {
	g := x.prog.ImportedPackage("io").Var("EOF")
	return load(x.global(g))
}

func (x *Exec) ioNative(name string, fn *ssa.Function, args []Value) (Value, bool) {
	switch name {
	case "os.OpenFile", "os.Open", "os.Create":
		// a direct open (bypassing a configured OpenFile function) is recorded as an event; the file lives in a
		// small in-engine file system keyed by name
		n := "?"
		if s, ok := args[0].(*Str); ok {
			if c, ok := s.concrete(); ok {
				n = c
			}
		}
		flag := 0 // os.Open
		if name == "os.Create" {
			flag = 0x242 // O_RDWR|O_CREATE|O_TRUNC
		} else if name == "os.OpenFile" {
			flag = concInt(args[1])
		}
		x.event("osopen:%s:%#x", n, flag)
		if x.fs == nil {
			x.fs = map[string]*fileModel{}
		}
		file, exists := x.fs[n]
		if !exists {
			if flag&0x40 == 0 { // O_CREATE
				return Tuple{Ptr{}, x.notExistErr()}, true
			}
			file = &fileModel{named: true}
			x.fs[n] = file
		}
		if flag&0x200 != 0 { // O_TRUNC
			file.content = nil
		}
		h := x.newFile("os", nil)
		hm := x.fileOf(h)
		hm.named, hm.shared, hm.appendM = true, file, flag&0x400 != 0 // O_APPEND
		return Tuple{h, Iface{}}, true
	case "os.Stat":
		if n, ok := args[0].(*Str).concrete(); ok {
			if _, exists := x.fs[n]; exists {
				return Tuple{Iface{t: types.Typ[types.UnsafePointer], v: Native{"fileinfo"}}, Iface{}}, true
			}
		}
		return Tuple{Iface{}, x.notExistErr()}, true
	case "time.Now":
		// the clock: a fixed epoch plus one second per call (non-decreasing instants; the value itself is outside every claim)
		x.clock++
		u := x.prog.ImportedPackage("time").Func("Unix")
		return x.call(u, []Value{BV(uint64(1700000000+x.clock), 64), BV(0, 64)}, nil), true
	case "os.Remove":
		if n, ok := args[0].(*Str).concrete(); ok {
			if _, exists := x.fs[n]; exists {
				delete(x.fs, n)
				return Iface{}, true
			}
		}
		return x.notExistErr(), true
	case "os.IsNotExist":
		e, _ := args[0].(Iface)
		ne := x.notExistErr().(Iface)
		return x.binop(token.EQL, e, ne, nil), true
	case "os.ReadFile":
		if n, ok := args[0].(*Str).concrete(); ok {
			if f, exists := x.fs[n]; exists {
				a := &ArrayObj{e: make([]Obj, len(f.content))}
				for i := range a.e {
					a.e[i] = &Cell{v: f.content[i]}
				}
				return Tuple{SliceV{a: a, len: len(f.content), cap: len(f.content)}, Iface{}}, true
			}
		}
		return Tuple{SliceV{}, x.notExistErr()}, true
	case "os.WriteFile":
		if n, ok := args[0].(*Str).concrete(); ok {
			if x.fs == nil {
				x.fs = map[string]*fileModel{}
			}
			x.fs[n] = &fileModel{named: true, content: x.sliceBytes(args[1].(SliceV))}
			return Iface{}, true
		}
		panic(abortPath{"os.WriteFile with a symbolic name", false})
	case "path/filepath.Abs":
		if p, ok := args[0].(*Str).concrete(); ok {
			if !strings.HasPrefix(p, "/") {
				p = "/cwd/" + p
			}
			return Tuple{strOf(p), Iface{}}, true
		}
		panic(abortPath{"filepath.Abs of a symbolic path", false})
	case "(*os.File).Write", "(*os.File).WriteString":
		f := x.fileOf(args[0])
		var bs []*Term
		if s, ok := args[1].(*Str); ok {
			bs = s.b
		} else {
			bs = x.sliceBytes(args[1].(SliceV))
		}
		if f == nil {
			return Tuple{BV(uint64(len(bs)), 64), Iface{}}, true // an unmodelled file (os.Stdout, ...): discard
		}
		f.writes++
		x.event("write:%d", f.id)
		if f.closed {
			return Tuple{BV(0, 64), x.newError("write to closed file")}, true
		}
		if f.failAt > 0 && f.writes >= f.failAt {
			return Tuple{BV(0, 64), x.newError("injected write failure")}, true
		}
		if f.named && f.shared != nil {
			file := f.shared
			if f.appendM {
				file.content = append(file.content, bs...)
			} else {
				for _, b := range bs { // overwrite in place from the handle's position, extending the file
					if f.wpos < len(file.content) {
						file.content[f.wpos] = b
					} else {
						file.content = append(file.content, b)
					}
					f.wpos++
				}
			}
		}
		f.written = append(f.written, bs...)
		return Tuple{BV(uint64(len(bs)), 64), Iface{}}, true
	case "(*os.File).Read":
		f := x.fileOf(args[0])
		buf := args[1].(SliceV)
		if f != nil && f.named && f.shared != nil {
			f.content = f.shared.content
		}
		if f == nil || f.rpos >= len(f.content) {
			if buf.len == 0 {
				return Tuple{BV(0, 64), Iface{}}, true
			}
			return Tuple{BV(0, 64), x.ioEOF()}, true
		}
		n := 0
		for n < buf.len && f.rpos < len(f.content) {
			store(buf.a.e[buf.off+n], f.content[f.rpos])
			n++
			f.rpos++
		}
		x.event("read:%d", f.id)
		return Tuple{BV(uint64(n), 64), Iface{}}, true
	case "(*os.File).Close":
		f := x.fileOf(args[0])
		if f == nil {
			return Iface{}, true
		}
		x.event("close:%d", f.id)
		if f.closed {
			return x.newError("file already closed"), true
		}
		f.closed = true
		return Iface{}, true
	case "(*os.File).Sync":
		return Iface{}, true
	case "os/exec.Command", "os/exec.CommandContext":
		ai := 0
		if name == "os/exec.CommandContext" {
			ai = 1
			// a background / TODO context can never be cancelled: such a command is an ordinary one
			if ctx, ok := args[0].(Iface); ok && ctx.t != nil && !strings.Contains(ctx.t.String(), "backgroundCtx") && !strings.Contains(ctx.t.String(), "todoCtx") {
				x.event("commandcontext")
			}
		}
		exe := "?"
		if s, ok := args[ai].(*Str); ok {
			if c, ok := s.concrete(); ok {
				exe = c
			}
		}
		x.event("command:%s", exe)
		rt := fn.Signature.Results().At(0).Type().(*types.Pointer).Elem()
		co := newObj(rt).(*StructObj)
		if ai == 1 {
			// exec.CommandContext sets Cmd.Cancel (documented): model it as a non-nil function
			st := rt.Underlying().(*types.Struct)
			for i := 0; i < st.NumFields(); i++ {
				if st.Field(i).Name() == "Cancel" {
					store(co.f[i], &Closure{})
				}
			}
		}
		return Ptr{o: co}, true
	case "(*os/exec.Cmd).Start":
		x.event("start")
		x.cmdConfigEvent(args[0])
		return Iface{}, true
	case "(*os/exec.Cmd).Run":
		x.event("start")
		x.cmdConfigEvent(args[0])
		x.event("wait")
		if x.waitResult != nil {
			return x.waitResult, true
		}
		return Iface{}, true
	case "(*os/exec.Cmd).Wait":
		x.event("wait")
		if x.waitResult != nil {
			return x.waitResult, true
		}
		return Iface{}, true
	case "(*os/exec.Cmd).StdinPipe":
		f := x.newFile("stdinpipe", nil)
		if x.pipeWriteFails {
			x.fileOf(f).failAt = 1
		}
		return Tuple{Iface{t: types.NewPointer(x.prog.ImportedPackage("os").Type("File").Type()), v: f}, Iface{}}, true
	case "(*os/exec.Cmd).StdoutPipe":
		f := x.newFile("stdoutpipe", x.pipeOutput)
		return Tuple{Iface{t: types.NewPointer(x.prog.ImportedPackage("os").Type("File").Type()), v: f}, Iface{}}, true
	}
	return nil, false
}

// intrinsics of harness/interp/rt_io.go
func (x *Exec) ioIntrinsic(short string, fn *ssa.Function, args []Value) (Value, bool) {
	switch short {
	case "verifNewFile":
		return x.newFile("harness", x.sliceBytes(args[0].(SliceV))), true
	case "verifFileData":
		f := x.fileOf(args[0])
		if f == nil {
			return SliceV{}, true
		}
		a := &ArrayObj{e: make([]Obj, len(f.written))}
		for i := range a.e {
			a.e[i] = &Cell{v: f.written[i]}
		}
		return SliceV{a: a, len: len(f.written), cap: len(f.written)}, true
	case "verifFileClosed":
		f := x.fileOf(args[0])
		return Bool(f != nil && f.closed), true
	case "verifFileID":
		f := x.fileOf(args[0])
		if f == nil {
			return BV(0, 64), true
		}
		return BV(uint64(f.id), 64), true
	case "verifFileFailAt":
		if f := x.fileOf(args[0]); f != nil {
			f.failAt = concInt(args[1])
		}
		return nil, true
	case "verifEvent":
		x.event("%s", mustStr(args[0]))
		return nil, true
	case "verifEventLog":
		s := ""
		for _, e := range x.events {
			s += e + ";"
		}
		return strOf(s), true
	case "verifPipeWriteFails":
		x.pipeWriteFails = args[0].(*Term).c != 0
		return nil, true
	case "verifPipeOutput":
		x.pipeOutput = x.sliceBytes(args[0].(SliceV))
		return nil, true
	case "verifWaitStatus":
		// the next (*exec.Cmd).Wait returns an *exec.ExitError whose Sys() is this (possibly symbolic) wait status
		ws := args[0].(*Term)
		osPkg := x.prog.ImportedPackage("os")
		psT := osPkg.Type("ProcessState").Type()
		ps := newObj(psT).(*StructObj)
		st := psT.Underlying().(*types.Struct)
		for i := 0; i < st.NumFields(); i++ {
			if st.Field(i).Name() == "status" {
				store(ps.f[i], Extend(ws, 32, false))
			}
		}
		eeT := x.prog.ImportedPackage("os/exec").Type("ExitError").Type()
		ee := newObj(eeT).(*StructObj)
		est := eeT.Underlying().(*types.Struct)
		for i := 0; i < est.NumFields(); i++ {
			if est.Field(i).Name() == "ProcessState" {
				store(ee.f[i], Ptr{o: ps})
			}
		}
		x.waitResult = Iface{t: types.NewPointer(eeT), v: Ptr{o: ee}}
		rt := fn.Signature.Results().At(0).Type().(*types.Pointer).Elem()
		return Ptr{o: newObj(rt)}, true
	}
	return nil, false
}
