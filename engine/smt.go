package main

import (
	"bufio"
	"fmt"
	"io"
	"math"
	"os"
	"os/exec"
	"strconv"
	"strings"
	"sync"
	"time"
)

// ---- terms (hash-consed SMT-LIB expressions over BV and Bool) ----

type Sort struct {
	Bool  bool
	FP    bool
	Width int // bit-vector width when !Bool && !FP
}

type Term struct {
	s     string // SMT-LIB text
	sort  Sort
	isC   bool
	c     uint64 // constant value (masked), bool: 0/1
	sym   bool   // a free symbol (declared to the solver on first use)
	inner *Term  // operand of a "(not x)" term
	op    string // operator (for the evaluator); "" for constants and symbols
	param int
	args  []*Term
}

// mkOp builds "(head a1 a2 ...)" and remembers the operator and operands for the evaluator
func mkOp(head string, sort Sort, op string, param int, args ...*Term) *Term {
	n := len(head) + 2
	for _, a := range args {
		n += len(a.s) + 1
	}
	var sb strings.Builder
	sb.Grow(n)
	sb.WriteByte('(')
	sb.WriteString(head)
	for _, a := range args {
		sb.WriteByte(' ')
		sb.WriteString(a.s)
	}
	sb.WriteByte(')')
	return intern(&Term{s: sb.String(), sort: sort, op: op, param: param, args: args})
}

// The term table is shared by all worker goroutines (terms are immutable once published).
const termShards = 256

type termShard struct {
	mu sync.RWMutex
	m  map[string]*Term
}

var termTab = newTermTab()

func newTermTab() *[termShards]termShard {
	t := new([termShards]termShard)
	for i := range t {
		t[i].m = map[string]*Term{}
	}
	return t
}

func shardOf(s string) *termShard {
	h := uint32(2166136261)
	n := len(s)
	// hash a bounded sample of the text: ends and length
	for i := 0; i < n && i < 24; i++ {
		h = (h ^ uint32(s[i])) * 16777619
	}
	for i := n - 1; i >= 0 && i >= n-24; i-- {
		h = (h ^ uint32(s[i])) * 16777619
	}
	h ^= uint32(n) * 2654435761
	return &termTab[(h>>8)%termShards]
}

func intern(t *Term) *Term {
	sh := shardOf(t.s)
	sh.mu.RLock()
	e, ok := sh.m[t.s]
	sh.mu.RUnlock()
	if ok {
		return e
	}
	sh.mu.Lock()
	if e, ok := sh.m[t.s]; ok {
		sh.mu.Unlock()
		return e
	}
	sh.m[t.s] = t
	sh.mu.Unlock()
	return t
}

func termLookup(s string) *Term {
	sh := shardOf(s)
	sh.mu.RLock()
	e := sh.m[s]
	sh.mu.RUnlock()
	return e
}

func mk(s string, sort Sort) *Term { return intern(&Term{s: s, sort: sort}) }

func mask(w int) uint64 {
	if w >= 64 {
		return ^uint64(0)
	}
	return (uint64(1) << uint(w)) - 1
}

func BV(v uint64, w int) *Term {
	v &= mask(w)
	var s string
	if w%4 == 0 {
		s = fmt.Sprintf("#x%0*x", w/4, v)
	} else {
		s = fmt.Sprintf("(_ bv%d %d)", v, w)
	}
	return intern(&Term{s: s, sort: Sort{Width: w}, isC: true, c: v})
}

var termTrue = &Term{s: "true", sort: Sort{Bool: true}, isC: true, c: 1}
var termFalse = &Term{s: "false", sort: Sort{Bool: true}, isC: true, c: 0}

func Bool(b bool) *Term {
	if b {
		return termTrue
	}
	return termFalse
}

func (x *Exec) FreshFP(name string) *Term {
	x.nvars++
	n := fmt.Sprintf("%s_%d", name, x.nvars)
	return intern(&Term{s: n, sort: Sort{FP: true}, sym: true})
}

func FP(f float64) *Term {
	b := math.Float64bits(f)
	s := fmt.Sprintf("(fp #b%01b #b%011b #b%052b)", b>>63, (b>>52)&0x7ff, b&((1<<52)-1))
	return intern(&Term{s: s, sort: Sort{FP: true}, isC: true, c: b})
}

func (t *Term) f() float64 { return math.Float64frombits(t.c) }

func fpbin(op string, a, b *Term) *Term {
	if a.isC && b.isC {
		x, y := a.f(), b.f()
		switch op {
		case "fp.add":
			return FP(x + y)
		case "fp.sub":
			return FP(x - y)
		case "fp.mul":
			return FP(x * y)
		case "fp.div":
			return FP(x / y)
		}
	}
	return mkOp(op+" RNE", Sort{FP: true}, op, 0, a, b)
}

func fpcmp(op string, a, b *Term) *Term {
	if a.isC && b.isC {
		x, y := a.f(), b.f()
		switch op {
		case "fp.eq":
			return Bool(x == y)
		case "fp.lt":
			return Bool(x < y)
		case "fp.leq":
			return Bool(x <= y)
		case "fp.gt":
			return Bool(x > y)
		case "fp.geq":
			return Bool(x >= y)
		}
	}
	return mkOp(op, Sort{Bool: true}, op, 0, a, b)
}

func fpneg(a *Term) *Term {
	if a.isC {
		return FP(-a.f())
	}
	return mkOp("fp.neg", Sort{FP: true}, "fp.neg", 0, a)
}

func fpIsNaN(a *Term) *Term {
	if a.isC {
		return Bool(a.f() != a.f())
	}
	return mkOp("fp.isNaN", Sort{Bool: true}, "fp.isNaN", 0, a)
}

// amd64 CVTTSD2SQ model
func fpToInt64(a *Term) *Term {
	if a.isC {
		f := a.f()
		if f != f || f >= 9223372036854775808.0 || f < -9223372036854775808.0 {
			return BV(0x8000000000000000, 64)
		}
		return BV(uint64(int64(f)), 64)
	}
	two63 := FP(9223372036854775808.0)
	bad := Or(fpIsNaN(a), Or(fpcmp("fp.geq", a, two63), fpcmp("fp.lt", a, fpneg(two63))))
	return Ite(bad, BV(0x8000000000000000, 64), mkOp("(_ fp.to_sbv 64) RTZ", Sort{Width: 64}, "fp.to_sbv", 64, a))
}

// amd64 CVTTSD2SL model
func fpToInt32(a *Term) *Term {
	if a.isC {
		f := a.f()
		if f != f || f >= 2147483648.0 || f <= -2147483649.0 {
			return BV(0x80000000, 32)
		}
		return BV(uint64(int64(f)), 32)
	}
	bad := Or(fpIsNaN(a), Or(fpcmp("fp.geq", a, FP(2147483648.0)), fpcmp("fp.leq", a, FP(-2147483649.0))))
	return Ite(bad, BV(0x80000000, 32), mkOp("(_ fp.to_sbv 32) RTZ", Sort{Width: 32}, "fp.to_sbv", 32, a))
}

// fpRound32 rounds a float64 to the nearest float32 (kept as a float64 term): Go's float32(x)
func fpRound32(a *Term) *Term {
	if a.isC {
		return FP(float64(float32(a.f())))
	}
	if a.op == "fp.round32" {
		return a
	}
	return intern(&Term{s: "((_ to_fp 11 53) RNE ((_ to_fp 8 24) RNE " + a.s + "))", sort: Sort{FP: true}, op: "fp.round32", args: []*Term{a}})
}

func int64ToFP(a *Term, signed bool) *Term {
	if a.isC {
		if signed {
			return FP(float64(sext(a.c, a.sort.Width)))
		}
		return FP(float64(a.c))
	}
	if signed {
		return mkOp("(_ to_fp 11 53) RNE", Sort{FP: true}, "to_fp", 0, a)
	}
	return mkOp("(_ to_fp_unsigned 11 53) RNE", Sort{FP: true}, "to_fp_unsigned", 0, a)
}

func (x *Exec) FreshBV(name string, w int) *Term {
	x.nvars++
	n := fmt.Sprintf("%s%d_%d", name, w, x.nvars)
	return intern(&Term{s: n, sort: Sort{Width: w}, sym: true})
}

func sext(v uint64, w int) int64 {
	if w >= 64 {
		return int64(v)
	}
	if v&(1<<uint(w-1)) != 0 {
		return int64(v | ^mask(w))
	}
	return int64(v)
}

func bvbin(op string, a, b *Term) *Term {
	w := a.sort.Width
	if a.isC && b.isC {
		x, y := a.c, b.c
		switch op {
		case "bvadd":
			return BV(x+y, w)
		case "bvsub":
			return BV(x-y, w)
		case "bvmul":
			return BV(x*y, w)
		case "bvand":
			return BV(x&y, w)
		case "bvor":
			return BV(x|y, w)
		case "bvxor":
			return BV(x^y, w)
		case "bvshl":
			if y >= uint64(w) {
				return BV(0, w)
			}
			return BV(x<<y, w)
		case "bvlshr":
			if y >= uint64(w) {
				return BV(0, w)
			}
			return BV(x>>y, w)
		case "bvudiv":
			if y != 0 {
				return BV(x/y, w)
			}
		case "bvurem":
			if y != 0 {
				return BV(x%y, w)
			}
		case "bvsdiv":
			if y != 0 {
				return BV(uint64(sext(x, w)/sext(y, w)), w)
			}
		case "bvsrem":
			if y != 0 {
				return BV(uint64(sext(x, w)%sext(y, w)), w)
			}
		case "bvashr":
			sh := y
			if sh >= uint64(w) {
				sh = uint64(w - 1)
			}
			return BV(uint64(sext(x, w)>>sh), w)
		}
	}
	return mkOp(op, Sort{Width: w}, op, 0, a, b)
}

func bvcmp(op string, a, b *Term) *Term {
	w := a.sort.Width
	if a.isC && b.isC {
		x, y := a.c, b.c
		switch op {
		case "=":
			return Bool(x == y)
		case "bvult":
			return Bool(x < y)
		case "bvule":
			return Bool(x <= y)
		case "bvslt":
			return Bool(sext(x, w) < sext(y, w))
		case "bvsle":
			return Bool(sext(x, w) <= sext(y, w))
		}
	}
	if op == "=" && a == b {
		return Bool(true)
	}
	return mkOp(op, Sort{Bool: true}, op, 0, a, b)
}

func Not(a *Term) *Term {
	if a.isC {
		return Bool(a.c == 0)
	}
	if a.inner != nil {
		return a.inner
	}
	return intern(&Term{s: "(not " + a.s + ")", sort: Sort{Bool: true}, inner: a, op: "not", args: []*Term{a}})
}

func And(a, b *Term) *Term {
	if a.isC {
		if a.c == 0 {
			return a
		}
		return b
	}
	if b.isC {
		if b.c == 0 {
			return b
		}
		return a
	}
	return mkOp("and", Sort{Bool: true}, "and", 0, a, b)
}

func Or(a, b *Term) *Term { return Not(And(Not(a), Not(b))) }

func Ite(c, a, b *Term) *Term {
	if c.isC {
		if c.c != 0 {
			return a
		}
		return b
	}
	if a == b {
		return a
	}
	return mkOp("ite", a.sort, "ite", 0, c, a, b)
}

func Extend(a *Term, to int, signed bool) *Term {
	w := a.sort.Width
	if to == w {
		return a
	}
	if to < w {
		if a.isC {
			return BV(a.c, to)
		}
		return mkOp(fmt.Sprintf("(_ extract %d 0)", to-1), Sort{Width: to}, "extract", to, a)
	}
	if a.isC {
		if signed {
			return BV(uint64(sext(a.c, w)), to)
		}
		return BV(a.c, to)
	}
	op := "zero_extend"
	if signed {
		op = "sign_extend"
	}
	return mkOp(fmt.Sprintf("(_ %s %d)", op, to-w), Sort{Width: to}, op, to, a)
}

// ---- solver process ----

type Solver struct {
	kind    string
	cmd     *exec.Cmd
	in      io.WriteCloser
	out     *bufio.Reader
	stack   []*Term // asserted constraints, one per push level
	decl    map[string]bool
	queries int
	unknown int
	errors  []string
	secs    float64
}

const queryTimeoutMs = 60000

func NewSolver(kind string) *Solver {
	var cmd *exec.Cmd
	switch kind {
	case "cvc5":
		cmd = exec.Command("cvc5", "--incremental", "--produce-models", "--lang=smt2", fmt.Sprintf("--tlimit-per=%d", queryTimeoutMs))
	case "z3-new":
		cmd = exec.Command("z3-new", "-in", fmt.Sprintf("-t:%d", queryTimeoutMs))
	default:
		kind = "z3"
		cmd = exec.Command("z3", "-in", fmt.Sprintf("-t:%d", queryTimeoutMs))
	}
	in, _ := cmd.StdinPipe()
	outp, _ := cmd.StdoutPipe()
	cmd.Stderr = os.Stderr
	if err := cmd.Start(); err != nil {
		panic(err)
	}
	s := &Solver{kind: kind, cmd: cmd, in: in, out: bufio.NewReader(outp), decl: map[string]bool{}}
	fmt.Fprintln(in, "(set-option :produce-models true)\n(set-option :global-declarations true)\n(set-logic ALL)\n(declare-fun pf_val ((_ BitVec 64) (_ BitVec 64) Bool Bool Bool) (_ FloatingPoint 11 53))\n(declare-fun pf_range ((_ BitVec 64) (_ BitVec 64) Bool Bool Bool) Bool)\n(declare-fun uf_pow ((_ FloatingPoint 11 53) (_ FloatingPoint 11 53)) (_ FloatingPoint 11 53))\n(declare-fun uf_mod ((_ FloatingPoint 11 53) (_ FloatingPoint 11 53)) (_ FloatingPoint 11 53))\n(declare-fun uf_atan2 ((_ FloatingPoint 11 53) (_ FloatingPoint 11 53)) (_ FloatingPoint 11 53))\n(declare-fun uf_log ((_ FloatingPoint 11 53)) (_ FloatingPoint 11 53))\n(declare-fun uf_exp ((_ FloatingPoint 11 53)) (_ FloatingPoint 11 53))\n(declare-fun uf_sin ((_ FloatingPoint 11 53)) (_ FloatingPoint 11 53))\n(declare-fun uf_cos ((_ FloatingPoint 11 53)) (_ FloatingPoint 11 53))\n(declare-fun uf_sqrt ((_ FloatingPoint 11 53)) (_ FloatingPoint 11 53))")
	return s
}

func (s *Solver) declare(t *Term) {
	// declare free symbols appearing in term text (names contain '_' followed by digits and are registered)
	for _, v := range symbolsOf(t.s) {
		if !s.decl[v.s] {
			s.decl[v.s] = true
			if v.sort.FP {
				fmt.Fprintf(s.in, "(declare-const %s (_ FloatingPoint 11 53))\n", v.s)
			} else {
				fmt.Fprintf(s.in, "(declare-const %s (_ BitVec %d))\n", v.s, v.sort.Width)
			}
		}
	}
}

func symbolsOf(s string) []*Term {
	var out []*Term
	f := strings.FieldsFunc(s, func(r rune) bool { return r == '(' || r == ')' || r == ' ' })
	seen := map[string]bool{}
	for _, w := range f {
		if seen[w] || w == "" || !(w[0] >= 'a' && w[0] <= 'z') || !strings.Contains(w, "_") {
			continue
		}
		if t := termLookup(w); t != nil && t.sym {
			seen[w] = true
			out = append(out, t)
		}
	}
	return out
}

// align solver stack with path condition pc (slice of constraints)
func (s *Solver) sync(pc []*Term) {
	k := 0
	for k < len(s.stack) && k < len(pc) && s.stack[k] == pc[k] {
		k++
	}
	if len(s.stack) > k {
		fmt.Fprintf(s.in, "(pop %d)\n", len(s.stack)-k)
		s.stack = s.stack[:k]
	}
	for ; k < len(pc); k++ {
		s.declare(pc[k])
		fmt.Fprintf(s.in, "(push 1)\n(assert %s)\n", pc[k].s)
		s.stack = append(s.stack, pc[k])
	}
}

// feasible reports whether pc && extra may be satisfiable (solver "unknown" counts as feasible: sound for exploration)
func (s *Solver) feasible(pc []*Term, extra *Term) bool {
	sat, _, unk := s.ask(pc, extra, nil)
	return sat || unk
}

// readLine returns the next non-empty solver output line
func (s *Solver) readLine() string {
	for {
		line, err := s.out.ReadString('\n')
		if err != nil {
			panic("solver died: " + err.Error())
		}
		line = strings.TrimSpace(line)
		if line != "" {
			return line
		}
	}
}

// ask decides pc && extra.  Returns (sat, model for vars, unknown).  Any solver error line, "unknown" or
// timeout is reported as unknown=true and never as unsat.
func (s *Solver) ask(pc []*Term, extra *Term, vars []*Term) (bool, map[string]uint64, bool) {
	if extra.isC && extra.c == 0 {
		return false, nil, false
	}
	t0 := time.Now()
	defer func() { s.secs += time.Since(t0).Seconds() }()
	s.sync(pc)
	s.declare(extra)
	s.queries++
	fmt.Fprintf(s.in, "(push 1)\n(assert %s)\n(check-sat)\n", extra.s)
	line := s.readLine()
	for strings.HasPrefix(line, "(error") {
		// an error before the verdict: the verdict that follows cannot be trusted
		s.errors = append(s.errors, line)
		verdict := s.readLine()
		_ = verdict
		fmt.Fprintln(s.in, "(pop 1)")
		s.unknown++
		return false, nil, true
	}
	var m map[string]uint64
	res, unk := false, false
	switch line {
	case "sat":
		res = true
		if vars != nil {
			m = s.getModel(vars)
		}
	case "unsat":
	default:
		// unknown / timeout
		s.unknown++
		unk = true
	}
	fmt.Fprintln(s.in, "(pop 1)")
	return res, m, unk
}

// getModel fetches the values of all declared vars with a single get-value
func (s *Solver) getModel(vars []*Term) map[string]uint64 {
	m := map[string]uint64{}
	var names []string
	sorts := map[string]Sort{}
	for _, v := range vars {
		if !s.decl[v.s] {
			m[v.s] = 0
			continue
		}
		if _, dup := sorts[v.s]; dup {
			continue
		}
		names = append(names, v.s)
		sorts[v.s] = v.sort
	}
	if len(names) == 0 {
		return m
	}
	fmt.Fprintf(s.in, "(get-value (%s))\n", strings.Join(names, " "))
	l := s.readLine()
	for strings.Count(l, "(") > strings.Count(l, ")") {
		l += " " + s.readLine()
	}
	// l = ((n1 v1) (n2 v2) ...): split into top-level pairs
	depth := 0
	start := -1
	for i := 0; i < len(l); i++ {
		switch l[i] {
		case '(':
			depth++
			if depth == 2 {
				start = i
			}
		case ')':
			if depth == 2 && start >= 0 {
				pair := l[start+1 : i]
				sp := strings.IndexByte(pair, ' ')
				if sp > 0 {
					name, val := pair[:sp], strings.TrimSpace(pair[sp+1:])
					if so, ok := sorts[name]; ok {
						if so.FP {
							m[name] = parseFPModel("(" + val + ")")
						} else {
							m[name] = parseBVModel(val)
						}
					}
				}
				start = -1
			}
			depth--
		}
	}
	return m
}

func parseBVModel(val string) uint64 {
	val = strings.TrimSpace(val)
	switch {
	case strings.HasPrefix(val, "#x"):
		u, _ := strconv.ParseUint(val[2:], 16, 64)
		return u
	case strings.HasPrefix(val, "#b"):
		u, _ := strconv.ParseUint(val[2:], 2, 64)
		return u
	case strings.HasPrefix(val, "(_ bv"):
		f := strings.Fields(val[5:])
		u, _ := strconv.ParseUint(f[0], 10, 64)
		return u
	}
	return 0
}

// askValue decides pc && extra and, when sat, returns the model value of the bit-vector term t
func (s *Solver) askValue(pc []*Term, extra *Term, t *Term) (bool, uint64, bool) {
	if extra.isC && extra.c == 0 {
		return false, 0, false
	}
	t0 := time.Now()
	defer func() { s.secs += time.Since(t0).Seconds() }()
	s.sync(pc)
	s.declare(extra)
	s.declare(t)
	s.queries++
	fmt.Fprintf(s.in, "(push 1)\n(assert %s)\n(check-sat)\n", extra.s)
	line := s.readLine()
	if strings.HasPrefix(line, "(error") {
		s.errors = append(s.errors, line)
		s.readLine()
		fmt.Fprintln(s.in, "(pop 1)")
		s.unknown++
		return false, 0, true
	}
	if line == "unsat" {
		fmt.Fprintln(s.in, "(pop 1)")
		return false, 0, false
	}
	if line != "sat" {
		fmt.Fprintln(s.in, "(pop 1)")
		s.unknown++
		return false, 0, true
	}
	fmt.Fprintf(s.in, "(get-value (%s))\n", t.s)
	l := s.readLine()
	for strings.Count(l, "(") > strings.Count(l, ")") {
		l += " " + s.readLine()
	}
	fmt.Fprintln(s.in, "(pop 1)")
	// l = ((<term> <value>)): the value is the last atom or (_ bvN w) list
	l = strings.TrimSpace(l)
	l = strings.TrimSuffix(strings.TrimSuffix(l, ")"), ")")
	if k := strings.LastIndex(l, "(_ bv"); k >= 0 {
		return true, parseBVModel(l[k:]), false
	}
	k := strings.LastIndex(l, "#")
	if k < 0 {
		s.unknown++
		return false, 0, true
	}
	return true, parseBVModel(l[k:]), false
}

func (s *Solver) Close() { s.in.Close(); s.cmd.Wait() }

// parse "((x (fp #b0 #b... #b...)))" or "(_ NaN 11 53)" etc. into float bits
func parseFPModel(l string) uint64 {
	if strings.Contains(l, "NaN") {
		return math.Float64bits(math.NaN())
	}
	if strings.Contains(l, "+oo") {
		return math.Float64bits(math.Inf(1))
	}
	if strings.Contains(l, "-oo") {
		return math.Float64bits(math.Inf(-1))
	}
	if strings.Contains(l, "+zero") {
		return 0
	}
	if strings.Contains(l, "-zero") {
		return 1 << 63
	}
	i := strings.Index(l, "(fp ")
	if i < 0 {
		return 0
	}
	parts := strings.Fields(strings.Trim(l[i+4:], ")\n "))
	var bits uint64
	widths := []int{1, 11, 52}
	for k := 0; k < 3 && k < len(parts); k++ {
		p := strings.Trim(parts[k], ")")
		var v uint64
		if strings.HasPrefix(p, "#b") {
			v, _ = strconv.ParseUint(p[2:], 2, 64)
		} else if strings.HasPrefix(p, "#x") {
			v, _ = strconv.ParseUint(p[2:], 16, 64)
		}
		bits = bits<<uint(widths[k]) | v
	}
	return bits
}
