package main

import (
	"fmt"
	"go/constant"
	"go/token"
	"go/types"
	"os"
	"sort"
	"strings"
	"time"

	"golang.org/x/tools/go/ssa"
)

// ---------- values ----------

type Value interface{}

type Str struct{ b []*Term } // string with concrete length
type Cell struct {
	v      Value
	frozen bool  // part of an object graph shared between paths (a cached parsed Program): stores are recorded
	owner  *Exec // the worker that froze the cell (keeps the undo log)
}

type undoEntry struct {
	c   *Cell
	old Value
}
type StructObj struct{ f []Obj } // addressable struct
type ArrayObj struct{ e []Obj }  // addressable array
type Obj interface{}             // *Cell | *StructObj | *ArrayObj
type Ptr struct{ o Obj }         // pointer (nil o = nil pointer)
type SliceV struct {             // slice header, concrete shape
	a             *ArrayObj
	off, len, cap int
}
type StructV struct{ f []Value }
type ArrayV struct{ e []Value }
type Iface struct {
	t types.Type
	v Value
}
type Closure struct {
	fn   *ssa.Function
	bind []Value
}
type MapObj struct {
	keys   []Value
	vals   []Value
	frozen bool
}
type Tuple []Value
type SymPtr struct { // pointer to element idx (symbolic) of objs
	objs []Obj
	idx  *Term
}
type Native struct{ v interface{} } // opaque native Go object (e.g. *regexp.Regexp)
type MapIter struct {
	m *MapObj
	i int
}
type StrIter struct {
	s *Str
	i int
}
type chanModel struct{ closed bool }
type goPanic struct{ v Value } // interpreted panic carrying a value (recoverable)

// ---------- exploration state ----------

type panicPath struct{ msg string } // Go-level panic in interpreted code
type abortPath struct {
	why    string
	benign bool // assumption failed / other shard / pruned: not a loss of coverage
}

type traceItem struct {
	t    *Term
	conc uint64
}

type knownPred struct {
	id   string
	pred *Term
}

type Exec struct {
	trace                 []traceItem
	events                []string
	rangeSite, rangeCount int
	mapOrderNondet        bool
	curInit               *ssa.Function
	frames                []*frame
	prog                  *ssa.Program
	harnessPkg            *ssa.Package
	globals               map[*ssa.Global]Obj
	inited                map[string]bool
	quoted                map[*Str]bool
	clock                 int64           // calls of time.Now on this path
	reBad                 map[string]bool // regexp.Compile contract verdict per symbolic pattern text (per path)
	inQuoteMeta           bool
	nvars                 int
	failWhere             string
	pathFlagged           bool // a violation or known finding was met on this path
	undo                  []undoEntry
	frozenWrites          int
	pathCompleted         bool // the harness returned normally on this path
	parseCache            map[string]Value
	files                 map[*StructObj]*fileModel
	fs                    map[string]*fileModel
	fileSeq               int
	waitResult            Value
	pipeOutput            []*Term
	pipeWriteFails        bool
	inCachedParse         bool
	solver                *Solver
	// current path
	pc         []*Term
	decision   []int // outcomes taken so far on this path
	prefix     []int // outcomes to replay
	work       []workItem
	model      map[*Term]uint64
	dom        map[*Term]bitset
	entangled  map[*Term]bool
	steps      int
	known      []knownPred
	inputs     []*Term
	inputNames []string
	// work splitting: the frontier pass cuts the path tree at splitDepth; every prefix of that length is a task
	splitDepth   int
	frontierMode bool
	frontier     []workItem
	owned        bool
	hungry       func() bool
	donate       func([]workItem)
	// configuration
	tier        int // 0 quick, 1 thorough
	activeKnown map[string]bool
	maxSteps    int
	deadline    time.Time
	// results
	res       *ShardResult
	funcsSeen map[string]bool
	seenViol  map[string]int
}

// choose among n outcomes; cons(i) gives the constraint for outcome i
func (x *Exec) choose(n int, cons func(i int) *Term) int {
	d := len(x.decision)
	if d < len(x.prefix) {
		i := x.prefix[d]
		x.decision = append(x.decision, i)
		x.addPC(cons(i))
		x.afterDecision()
		return i
	}
	if n > 4096 {
		panic(abortPath{"case split over more than 4096 values (a symbolic size or index is not bounded by the harness)", false})
	}
	first := -1
	var firstModel map[*Term]uint64
	for i := 0; i < n; i++ {
		if i%128 == 127 && !x.deadline.IsZero() && time.Now().After(x.deadline) {
			panic(timeoutAbort{})
		}
		c := cons(i)
		ok, m := x.feas(c)
		if !ok {
			continue
		}
		if first < 0 {
			first = i
			firstModel = m
		} else {
			alt := append(append([]int{}, x.decision...), i)
			x.work = append(x.work, workItem{alt, m})
		}
	}
	if first < 0 {
		panic(abortPath{"no feasible outcome", true})
	}
	x.decision = append(x.decision, first)
	if firstModel != nil {
		x.model = firstModel
	}
	x.addPC(cons(first))
	x.res.Decisions++
	x.afterDecision()
	return first
}

type workItem struct {
	prefix []int
	model  map[*Term]uint64 // a model of the path condition of this prefix, if one is known
}

var noOpt = os.Getenv("GOSYM_NOOPT") != ""

// feas decides whether pc && c is satisfiable; when the solver had to be asked and said sat, its model is returned.
// "true" is only ever answered with a witness (the current model, an exact byte-domain argument, or the solver);
// "false" only on an empty domain intersection or a solver unsat.  Solver "unknown" counts as feasible.
func (x *Exec) feas(c *Term) (bool, map[*Term]uint64) {
	if c.isC {
		return c.c != 0, nil
	}
	if !noOpt {
		vs := varsOf(c)
		if len(vs) == 1 && !vs[0].sort.FP && vs[0].sort.Width <= 8 {
			v := vs[0]
			if ts, ok := truthSet(c, v); ok {
				d, have := x.dom[v]
				if !have {
					d = fullSet(v.sort.Width)
				}
				inter := d.and(&ts)
				if inter.empty() {
					x.res.FastDecisions++
					return false, nil
				}
				if !x.entangled[v] {
					x.res.FastDecisions++
					return true, nil
				}
			}
		}
		if x.model != nil {
			if val, ok := evalTerm(c, x.model); ok && val != 0 {
				x.res.ModelDecisions++
				return true, nil
			}
		}
	}
	sat, m, unk := x.solver.ask(x.pc, c, x.inputs)
	if unk {
		return true, nil
	}
	if !sat {
		return false, nil
	}
	return true, x.modelOf(m)
}

func (x *Exec) modelOf(m map[string]uint64) map[*Term]uint64 {
	out := make(map[*Term]uint64, len(x.inputs))
	for _, in := range x.inputs {
		out[in] = m[in.s]
	}
	return out
}

// addPC appends a constraint (already known to be feasible) to the path condition and keeps the byte
// domains and the current model consistent with it
func (x *Exec) addPC(c *Term) {
	if c.isC && c.c == 1 {
		return
	}
	x.pc = append(x.pc, c)
	if noOpt {
		return
	}
	vs := varsOf(c)
	single := len(vs) == 1 && !vs[0].sort.FP && vs[0].sort.Width <= 8
	var ts bitset
	tsOK := false
	if single {
		ts, tsOK = truthSet(c, vs[0])
	}
	if single && tsOK {
		v := vs[0]
		d, have := x.dom[v]
		if !have {
			d = fullSet(v.sort.Width)
		}
		x.dom[v] = d.and(&ts)
	} else {
		for _, v := range vs {
			x.entangled[v] = true
		}
	}
	if x.model != nil {
		val, ok := evalTerm(c, x.model)
		if ok && val != 0 {
			return
		}
		if single && tsOK && !x.entangled[vs[0]] {
			d := x.dom[vs[0]]
			if f := d.first(); f >= 0 {
				x.model[vs[0]] = uint64(f)
				return
			}
		}
		x.model = nil
	}
}

func hashDecisions(d []int) uint32 {
	h := uint32(2166136261)
	for _, v := range d {
		h ^= uint32(v) + 0x9e37
		h *= 16777619
		h ^= h >> 13
	}
	return h
}

// in the frontier pass a path is cut when it reaches splitDepth decisions; the prefix becomes a subtree task
func (x *Exec) afterDecision() {
	if x.frontierMode && len(x.decision) == x.splitDepth {
		var m map[*Term]uint64
		if x.model != nil {
			m = make(map[*Term]uint64, len(x.model))
			for k, v := range x.model {
				m[k] = v
			}
		}
		x.frontier = append(x.frontier, workItem{append([]int{}, x.decision...), m})
		x.owned = false
		panic(abortPath{"frontier", true})
	}
	if !x.deadline.IsZero() && x.res.Decisions%64 == 0 && time.Now().After(x.deadline) {
		panic(timeoutAbort{})
	}
}

type timeoutAbort struct{}

func (x *Exec) branch(c *Term) bool {
	if c.isC {
		return c.c != 0
	}
	i := x.choose(2, func(i int) *Term {
		if i == 0 {
			return c
		}
		return Not(c)
	})
	return i == 0
}

// concretize a bit-vector term to an int in [lo,hi] (forking); out-of-range is reported via oob().
// The decision recorded for a value v is v-lo, whatever strategy found it.
func (x *Exec) concretize(t *Term, lo, hi int, signed bool) int {
	if t.isC {
		if signed {
			return int(sext(t.c, t.sort.Width))
		}
		return int(t.c)
	}
	n := hi - lo + 1
	eq := func(i int) *Term { return bvcmp("=", t, BV(uint64(int64(lo+i)), t.sort.Width)) }
	if n <= 32 || len(x.decision) < len(x.prefix) {
		return lo + x.choose(n, eq)
	}
	// large range: discover the feasible values through solver models instead of trying every value
	var found []int
	excl := Bool(true)
	inRange := And(bvcmp("bvsle", BV(uint64(int64(lo)), t.sort.Width), t), bvcmp("bvsle", t, BV(uint64(int64(hi)), t.sort.Width)))
	if !signed {
		inRange = bvcmp("bvule", t, BV(uint64(int64(hi)), t.sort.Width))
	}
	for len(found) <= 300 {
		sat, m, unk := x.solver.askValue(x.pc, And(inRange, excl), t)
		if unk {
			panic(abortPath{"solver unknown while enumerating the values of a symbolic size", false})
		}
		if !sat {
			break
		}
		v := int(sext(m, t.sort.Width))
		if !signed {
			v = int(m)
		}
		found = append(found, v)
		excl = And(excl, Not(bvcmp("=", t, BV(m, t.sort.Width))))
	}
	if len(found) > 300 {
		panic(abortPath{"a symbolic size or index takes more than 300 values (not bounded by the harness)", false})
	}
	if len(found) == 0 {
		panic(abortPath{"no feasible outcome", true})
	}
	sort.Ints(found)
	for _, v := range found[1:] {
		alt := append(append([]int{}, x.decision...), v-lo)
		x.work = append(x.work, workItem{alt, nil})
	}
	x.decision = append(x.decision, found[0]-lo)
	x.addPC(eq(found[0] - lo))
	x.res.Decisions++
	x.afterDecision()
	return found[0]
}

// ---------- type helpers ----------

func width(t types.Type) (int, bool) {
	b, ok := t.Underlying().(*types.Basic)
	if !ok {
		return 0, false
	}
	switch b.Kind() {
	case types.Int8:
		return 8, true
	case types.Uint8:
		return 8, false
	case types.Int16:
		return 16, true
	case types.Uint16:
		return 16, false
	case types.Int32:
		return 32, true
	case types.Uint32:
		return 32, false
	case types.Int, types.Int64, types.UntypedInt, types.UntypedRune:
		return 64, true
	case types.Uint, types.Uint64, types.Uintptr:
		return 64, false
	}
	return 0, false
}

func isFloat32(t types.Type) bool {
	b, ok := t.Underlying().(*types.Basic)
	return ok && b.Kind() == types.Float32
}

func isFloat(t types.Type) bool {
	b, ok := t.Underlying().(*types.Basic)
	return ok && b.Info()&types.IsFloat != 0
}

var zero8, zero64, zeroFP = BV(0, 8), BV(0, 64), FP(0)

func zero(t types.Type) Value {
	switch u := t.Underlying().(type) {
	case *types.Basic:
		if u.Kind() == types.Bool || u.Kind() == types.UntypedBool {
			return Bool(false)
		}
		if u.Kind() == types.String || u.Kind() == types.UntypedString {
			return &Str{}
		}
		if w, _ := width(t); w > 0 {
			switch w {
			case 8:
				return zero8
			case 64:
				return zero64
			}
			return BV(0, w)
		}
		if isFloat(t) {
			return zeroFP
		}
		if u.Kind() == types.UnsafePointer {
			return Ptr{}
		}
		if u.Kind() == types.UntypedNil {
			return nil
		}
		panic("zero: basic " + u.String())
	case *types.Struct:
		s := StructV{f: make([]Value, u.NumFields())}
		for i := range s.f {
			s.f[i] = zero(u.Field(i).Type())
		}
		return s
	case *types.Array:
		a := ArrayV{e: make([]Value, u.Len())}
		for i := range a.e {
			a.e[i] = zero(u.Elem())
		}
		return a
	case *types.Slice:
		return SliceV{}
	case *types.Pointer:
		return Ptr{}
	case *types.Interface:
		return Iface{}
	case *types.Signature:
		return (*Closure)(nil)
	case *types.Map:
		return (*MapObj)(nil)
	case *types.Chan:
		return Ptr{}
	case *types.Tuple:
		tt := make(Tuple, u.Len())
		for i := range tt {
			tt[i] = zero(u.At(i).Type())
		}
		return tt
	}
	panic(fmt.Sprintf("zero: %T %s", t.Underlying(), t))
}

func newObj(t types.Type) Obj {
	switch u := t.Underlying().(type) {
	case *types.Struct:
		s := &StructObj{f: make([]Obj, u.NumFields())}
		for i := range s.f {
			s.f[i] = newObj(u.Field(i).Type())
		}
		return s
	case *types.Array:
		a := &ArrayObj{e: make([]Obj, u.Len())}
		for i := range a.e {
			a.e[i] = newObj(u.Elem())
		}
		return a
	}
	return &Cell{v: zero(t)}
}

func load(o Obj) Value {
	switch o := o.(type) {
	case *Cell:
		return o.v
	case *StructObj:
		s := StructV{f: make([]Value, len(o.f))}
		for i := range o.f {
			s.f[i] = load(o.f[i])
		}
		return s
	case *ArrayObj:
		a := ArrayV{e: make([]Value, len(o.e))}
		for i := range o.e {
			a.e[i] = load(o.e[i])
		}
		return a
	}
	panic("load nil")
}

func store(o Obj, v Value) {
	switch o := o.(type) {
	case *Cell:
		if o.frozen && o.owner != nil {
			// a store into the shared Program: remember the old value (restored when the path ends, so the
			// mutation stays local to this path) and let execution continue so that its effects can be observed
			o.owner.undo = append(o.owner.undo, undoEntry{o, o.v})
			o.owner.frozenWrites++
		}
		o.v = v
	case *StructObj:
		s := v.(StructV)
		for i := range o.f {
			store(o.f[i], s.f[i])
		}
	case *ArrayObj:
		a := v.(ArrayV)
		for i := range o.e {
			store(o.e[i], a.e[i])
		}
	default:
		panic("store nil")
	}
}

func objOf(t types.Type, v Value) Obj { o := newObj(t); store(o, v); return o }

// ---------- frames ----------

type frame struct {
	fn        *ssa.Function
	env       map[ssa.Value]Value
	defers    []func()
	panicking *goPanic
	recovered bool
}

func (x *Exec) constVal(c *ssa.Const) Value {
	t := c.Type()
	if c.Value == nil {
		return zero(t)
	}
	switch u := t.Underlying().(type) {
	case *types.Basic:
		switch {
		case u.Info()&types.IsBoolean != 0:
			return Bool(constant.BoolVal(c.Value))
		case u.Info()&types.IsString != 0:
			s := constant.StringVal(c.Value)
			st := &Str{b: make([]*Term, len(s))}
			for i := 0; i < len(s); i++ {
				st.b[i] = BV(uint64(s[i]), 8)
			}
			return st
		case u.Info()&types.IsFloat != 0:
			f, _ := constant.Float64Val(constant.ToFloat(c.Value))
			return FP(f)
		case u.Info()&types.IsInteger != 0:
			w, _ := width(t)
			if i, ok := constant.Int64Val(constant.ToInt(c.Value)); ok {
				return BV(uint64(i), w)
			}
			u64, _ := constant.Uint64Val(constant.ToInt(c.Value))
			return BV(u64, w)
		}
	}
	panic("const: " + c.String())
}

func (x *Exec) get(fr *frame, v ssa.Value) Value {
	switch v := v.(type) {
	case *ssa.Const:
		return x.constVal(v)
	case *ssa.Function:
		return &Closure{fn: v}
	case *ssa.Global:
		return Ptr{o: x.global(v)}
	case *ssa.Builtin:
		return v
	}
	r, ok := fr.env[v]
	if !ok {
		panic(fmt.Sprintf("unbound %s in %s", v.Name(), fr.fn))
	}
	return r
}

var denyInit = map[string]bool{"runtime": true, "os": true, "syscall": true, "sync": true, "reflect": true, "fmt": true, "time": true, "errors": true, "internal/reflectlite": true, "sync/atomic": true, "regexp/syntax": true, "math/rand": true, "os/exec": true, "context": true}

func (x *Exec) global(g *ssa.Global) Obj {
	if g.Pkg != nil {
		pp := g.Pkg.Pkg.Path()
		if !x.inited[pp] {
			x.inited[pp] = true
			if denyInit[pp] || (strings.HasPrefix(pp, "internal/") && pp != "internal/oserror") || strings.HasPrefix(pp, "runtime") {
				if g.Name() != "init$guard" {
					x.res.Inconclusive["note: read a global of an uninitialised (denied) package: "+g.String()] += 0
				}
			} else if in := g.Pkg.Func("init"); in != nil {
				savedPC, savedDec, savedPre := x.pc, x.decision, x.prefix
				x.callInit(in)
				x.pc, x.decision, x.prefix = savedPC, savedDec, savedPre
			}
		}
	}
	if o, ok := x.globals[g]; ok {
		return o
	}
	o := newObj(g.Type().(*types.Pointer).Elem())
	x.globals[g] = o
	return o
}

func (x *Exec) call(fn *ssa.Function, args []Value, bind []Value) (ret Value) {
	retSet := false
	name := fn.String()
	if r, ok := x.intrinsic(name, fn, args); ok {
		return r
	}
	if fn.Name() == "init" && fn.Pkg != nil && fn != x.curInit {
		return nil // dependency inits run lazily, on first access to one of their globals
	}
	if fn.Blocks == nil {
		panic("no body: " + name)
	}
	x.funcsSeen[name] = true
	fr := &frame{fn: fn, env: map[ssa.Value]Value{}}
	for i, p := range fn.Params {
		fr.env[p] = args[i]
	}
	for i, fv := range fn.FreeVars {
		fr.env[fv] = bind[i]
	}
	x.frames = append(x.frames, fr)
	defer func() {
		if x.failWhere == "" {
			if r := recover(); r != nil {
				x.failWhere = x.where()
				x.frames = x.frames[:len(x.frames)-1]
				panic(r)
			}
		}
		x.frames = x.frames[:len(x.frames)-1]
	}()
	if fn.Recover == nil && !hasDefer(fn) {
		return x.run(fr, fn.Blocks[0])
	}
	// function with defers: catch interpreted panics, run defers, maybe recover
	func() {
		defer func() {
			if r := recover(); r != nil {
				gp, ok := r.(goPanic)
				if !ok {
					// path abort / runtime panicPath: still run nothing, propagate
					panic(r)
				}
				fr.panicking = &gp
				x.runDefers(fr)
				if !fr.recovered {
					panic(gp)
				}
			}
		}()
		ret = x.run(fr, fn.Blocks[0])
		retSet = true
	}()
	if retSet {
		return ret
	}
	// recovered: execute the Recover block (returns named results)
	if fn.Recover != nil {
		return x.run(fr, fn.Recover)
	}
	return zeroResults(fn)
}

func zeroResults(fn *ssa.Function) Value {
	res := fn.Signature.Results()
	switch res.Len() {
	case 0:
		return nil
	case 1:
		return zero(res.At(0).Type())
	}
	return zero(res)
}

func hasDefer(fn *ssa.Function) bool {
	for _, b := range fn.Blocks {
		for _, in := range b.Instrs {
			if _, ok := in.(*ssa.Defer); ok {
				return true
			}
		}
	}
	return false
}

func (x *Exec) runDefers(fr *frame) {
	for len(fr.defers) > 0 {
		d := fr.defers[len(fr.defers)-1]
		fr.defers = fr.defers[:len(fr.defers)-1]
		d()
	}
}

func (x *Exec) run(fr *frame, blk *ssa.BasicBlock) Value {
	fn := fr.fn
	var prev *ssa.BasicBlock
	for {
		var next *ssa.BasicBlock
		// simultaneous phi evaluation
		var phiVals []Value
		nphi := 0
		for _, ins := range blk.Instrs {
			phi, ok := ins.(*ssa.Phi)
			if !ok {
				break
			}
			nphi++
			for i, p := range blk.Preds {
				if p == prev {
					phiVals = append(phiVals, x.get(fr, phi.Edges[i]))
					break
				}
			}
		}
		for i := 0; i < nphi; i++ {
			fr.env[blk.Instrs[i].(*ssa.Phi)] = phiVals[i]
		}
		for _, ins := range blk.Instrs[nphi:] {
			x.steps++
			if x.steps > x.maxSteps {
				panic(abortPath{"step budget", false})
			}
			switch ins := ins.(type) {
			case *ssa.If:
				c := x.get(fr, ins.Cond).(*Term)
				if x.branch(c) {
					next = blk.Succs[0]
				} else {
					next = blk.Succs[1]
				}
			case *ssa.Jump:
				next = blk.Succs[0]
			case *ssa.Return:
				switch len(ins.Results) {
				case 0:
					return nil
				case 1:
					return x.get(fr, ins.Results[0])
				}
				t := make(Tuple, len(ins.Results))
				for i, r := range ins.Results {
					t[i] = x.get(fr, r)
				}
				return t
			case *ssa.Panic:
				panic(goPanic{x.get(fr, ins.X)})
			case *ssa.Store:
				if sp, ok := x.get(fr, ins.Addr).(SymPtr); ok {
					nv := x.get(fr, ins.Val).(*Term)
					for k, o := range sp.objs {
						old := load(o).(*Term)
						store(o, Ite(bvcmp("=", sp.idx, BV(uint64(k), sp.idx.sort.Width)), nv, old))
					}
					continue
				}
				p := x.get(fr, ins.Addr).(Ptr)
				if p.o == nil {
					panic(panicPath{"nil deref store at " + x.prog.Fset.Position(ins.Pos()).String()})
				}
				func() {
					defer func() {
						if r := recover(); r != nil {
							fmt.Printf("STORE FAIL in %s: %s  (val type %s, addr type %s) at %s: %v\n", fn, ins, ins.Val.Type(), ins.Addr.Type(), x.prog.Fset.Position(ins.Pos()), r)
							panic(r)
						}
					}()
					store(p.o, x.get(fr, ins.Val))
				}()
			case *ssa.MapUpdate:
				x.mapUpdate(x.get(fr, ins.Map).(*MapObj), x.get(fr, ins.Key), x.get(fr, ins.Value))
			case *ssa.Defer:
				cc := ins.Common()
				fnv, args := x.resolveCall(fr, cc)
				fr.defers = append(fr.defers, func() { x.invoke(fnv, args, cc) })
			case *ssa.RunDefers:
				x.runDefers(fr)
			case *ssa.DebugRef:
			case ssa.Value:
				fr.env[ins] = x.eval(fr, ins)
			default:
				panic(fmt.Sprintf("unsupported instr %T in %s", ins, fn))
			}
		}
		prev, blk = blk, next
	}
}

func (x *Exec) eval(fr *frame, ins ssa.Value) Value {
	switch ins := ins.(type) {
	case *ssa.Alloc:
		return Ptr{o: newObj(ins.Type().(*types.Pointer).Elem())}
	case *ssa.FieldAddr:
		p := x.get(fr, ins.X).(Ptr)
		if p.o == nil {
			panic(panicPath{"nil deref"})
		}
		return Ptr{o: p.o.(*StructObj).f[ins.Field]}
	case *ssa.Field:
		return x.get(fr, ins.X).(StructV).f[ins.Field]
	case *ssa.IndexAddr:
		base := x.get(fr, ins.X)
		idx := x.get(fr, ins.Index).(*Term)
		if _, sg := width(ins.Index.Type()); idx.sort.Width < 64 {
			idx = Extend(idx, 64, sg)
		}
		switch b := base.(type) {
		case SliceV:
			if !idx.isC && b.len > 8 && isScalarObjs(b.a.e[b.off:b.off+b.len]) {
				x.boundsCheck(idx, b.len)
				return SymPtr{objs: b.a.e[b.off : b.off+b.len], idx: idx}
			}
			i := x.index(idx, b.len)
			return Ptr{o: b.a.e[b.off+i]}
		case Ptr:
			a := b.o.(*ArrayObj)
			if !idx.isC && len(a.e) > 8 && isScalarObjs(a.e) {
				x.boundsCheck(idx, len(a.e))
				return SymPtr{objs: a.e, idx: idx}
			}
			i := x.index(idx, len(a.e))
			return Ptr{o: a.e[i]}
		}
		panic("IndexAddr base")
	case *ssa.Index:
		base := x.get(fr, ins.X)
		idx := x.get(fr, ins.Index).(*Term)
		if _, sg := width(ins.Index.Type()); idx.sort.Width < 64 {
			idx = Extend(idx, 64, sg)
		}
		switch b := base.(type) {
		case *Str:
			i := x.index(idx, len(b.b))
			return b.b[i]
		case ArrayV:
			// symbolic index into constant table: ite chain
			if !idx.isC {
				x.boundsCheck(idx, len(b.e))
				vals := make([]*Term, len(b.e))
				for k := range vals {
					vals[k] = b.e[k].(*Term)
				}
				return tableLookup(vals, idx)
			}
			i := x.index(idx, len(b.e))
			return b.e[i]
		}
		panic("Index base")
	case *ssa.UnOp:
		v := x.get(fr, ins.X)
		switch ins.Op {
		case token.MUL:
			if sp, ok := v.(SymPtr); ok {
				vals := make([]*Term, len(sp.objs))
				for k := range vals {
					vals[k] = load(sp.objs[k]).(*Term)
				}
				return tableLookup(vals, sp.idx)
			}
			p := v.(Ptr)
			if p.o == nil {
				panic(panicPath{"nil deref"})
			}
			return load(p.o)
		case token.NOT:
			return Not(v.(*Term))
		case token.SUB:
			t := v.(*Term)
			if t.sort.FP {
				return fpneg(t)
			}
			return bvbin("bvsub", BV(0, t.sort.Width), t)
		case token.XOR:
			t := v.(*Term)
			return bvbin("bvxor", t, BV(^uint64(0), t.sort.Width))
		}
	case *ssa.BinOp:
		return x.binop(ins.Op, x.get(fr, ins.X), x.get(fr, ins.Y), ins.X.Type())
	case *ssa.Convert:
		return x.convert(x.get(fr, ins.X), ins.X.Type(), ins.Type())
	case *ssa.ChangeType:
		return x.get(fr, ins.X)
	case *ssa.Slice:
		return x.slice(fr, ins)
	case *ssa.MakeSlice:
		lenT, capT := x.get(fr, ins.Len).(*Term), x.get(fr, ins.Cap).(*Term)
		// Go panics at run time for a negative (or absurdly large) length or capacity
		if x.branch(Or(bvcmp("bvslt", lenT, BV(0, lenT.sort.Width)), bvcmp("bvslt", capT, lenT))) {
			panic(panicPath{"makeslice: len out of range"})
		}
		if x.branch(bvcmp("bvslt", BV(1<<20, capT.sort.Width), capT)) {
			panic(abortPath{"allocation of more than 2^20 elements (outside the engine's bound)", false})
		}
		n := x.concretize(lenT, 0, 1<<20, true)
		c := x.concretize(capT, 0, 1<<20, true)
		et := ins.Type().Underlying().(*types.Slice).Elem()
		a := &ArrayObj{e: make([]Obj, c)}
		if _, isBasic := et.Underlying().(*types.Basic); isBasic {
			// bulk allocation: one backing array of cells sharing the (immutable) zero value
			z := zero(et)
			cells := make([]Cell, c)
			for i := range cells {
				cells[i].v = z
				a.e[i] = &cells[i]
			}
		} else {
			for i := range a.e {
				a.e[i] = newObj(et)
			}
		}
		return SliceV{a: a, len: n, cap: c}
	case *ssa.MakeClosure:
		c := &Closure{fn: ins.Fn.(*ssa.Function)}
		for _, b := range ins.Bindings {
			c.bind = append(c.bind, x.get(fr, b))
		}
		return c
	case *ssa.MakeInterface:
		return Iface{t: ins.X.Type(), v: x.get(fr, ins.X)}
	case *ssa.MakeMap:
		return &MapObj{}
	case *ssa.Lookup:
		return x.lookup(fr, ins)
	case *ssa.Extract:
		return x.get(fr, ins.Tuple).(Tuple)[ins.Index]
	case *ssa.TypeAssert:
		v := x.get(fr, ins.X).(Iface)
		var res Value
		ok := false
		if it, isIface := ins.AssertedType.Underlying().(*types.Interface); isIface {
			ok = v.t != nil && types.Implements(v.t, it)
			res = v
		} else {
			ok = v.t != nil && types.Identical(v.t, ins.AssertedType)
			res = v.v
		}
		if ins.CommaOk {
			if ok {
				return Tuple{res, Bool(true)}
			}
			return Tuple{zero(ins.AssertedType), Bool(false)}
		}
		if !ok {
			panic(goPanic{&Str{}}) // runtime.TypeAssertionError (recoverable)
		}
		return res
	case *ssa.Call:
		return x.doCall(fr, ins.Common())
	case *ssa.ChangeInterface:
		return x.get(fr, ins.X)
	case *ssa.MakeChan:
		return Ptr{o: &Cell{v: Native{&chanModel{}}}}
	case *ssa.Select:
		// only receive cases on modelled channels; ready iff closed
		for i, st := range ins.States {
			ch := x.get(fr, st.Chan).(Ptr)
			if ch.o == nil {
				continue
			}
			cm := load(ch.o).(Native).v.(*chanModel)
			if cm.closed {
				t := Tuple{BV(uint64(i), 64), Bool(false)}
				for _, s2 := range ins.States {
					t = append(t, zero(s2.Chan.Type().Underlying().(*types.Chan).Elem()))
				}
				return t
			}
		}
		if !ins.Blocking {
			t := Tuple{BV(^uint64(0), 64), Bool(false)}
			for _, s2 := range ins.States {
				t = append(t, zero(s2.Chan.Type().Underlying().(*types.Chan).Elem()))
			}
			return t
		}
		panic(abortPath{"blocking select would block forever", false})
	case *ssa.Range:
		switch v := x.get(fr, ins.X).(type) {
		case *MapObj:
			snap := &MapObj{}
			if v != nil {
				snap.keys = append(snap.keys, v.keys...)
				snap.vals = append(snap.vals, v.vals...)
			}
			if x.mapOrderNondet && len(snap.keys) > 1 {
				x.rangeCount++
			}
			if x.mapOrderNondet && len(snap.keys) > 1 && (x.rangeSite < 0 || x.rangeSite == x.rangeCount-1) {
				// symbolic permutation: pick the next element among the remaining ones (all n! orders for n <= 5);
				// larger maps: the n rotations and the reversal only (stated in the evidence as a reduced bound)
				n := len(snap.keys)
				perm := &MapObj{}
				if n > 5 {
					c := x.choose(n+1, func(int) *Term { return Bool(true) })
					for i := 0; i < n; i++ {
						j := (i + c) % n
						if c == n {
							j = n - 1 - i
						}
						perm.keys = append(perm.keys, snap.keys[j])
						perm.vals = append(perm.vals, snap.vals[j])
					}
					x.res.Inconclusive["note: map with more than 5 entries: rotations and reversal explored instead of all orders"] += 0
				} else {
					used := make([]bool, n)
					for k := 0; k < n-1; k++ {
						rem := []int{}
						for i := 0; i < n; i++ {
							if !used[i] {
								rem = append(rem, i)
							}
						}
						c := x.choose(len(rem), func(int) *Term { return Bool(true) })
						used[rem[c]] = true
						perm.keys = append(perm.keys, snap.keys[rem[c]])
						perm.vals = append(perm.vals, snap.vals[rem[c]])
					}
					for i := 0; i < n; i++ {
						if !used[i] {
							perm.keys = append(perm.keys, snap.keys[i])
							perm.vals = append(perm.vals, snap.vals[i])
						}
					}
				}
				snap = perm
			}
			return &MapIter{m: snap}
		case *Str:
			return &StrIter{s: v}
		}
		panic("range over ?")
	case *ssa.Next:
		switch it := x.get(fr, ins.Iter).(type) {
		case *MapIter:
			if it.i >= len(it.m.keys) {
				mt := ins.Iter.(*ssa.Range).X.Type().Underlying().(*types.Map)
				return Tuple{Bool(false), zero(mt.Key()), zero(mt.Elem())}
			}
			it.i++
			return Tuple{Bool(true), it.m.keys[it.i-1], it.m.vals[it.i-1]}
		case *StrIter:
			if it.i >= len(it.s.b) {
				return Tuple{Bool(false), BV(0, 64), BV(0, 32)}
			}
			dec := x.prog.ImportedPackage("unicode/utf8").Func("DecodeRuneInString")
			r := x.call(dec, []Value{&Str{b: it.s.b[it.i:]}}, nil).(Tuple)
			idx := it.i
			it.i += x.concretize(r[1].(*Term), 1, 4, true)
			return Tuple{Bool(true), BV(uint64(idx), 64), r[0]}
		}
		panic("next ?")
	}
	panic(fmt.Sprintf("unsupported value %T: %s", ins, ins))
}

func isScalarObjs(os []Obj) bool {
	for _, o := range os {
		c, ok := o.(*Cell)
		if !ok {
			return false
		}
		if _, ok := c.v.(*Term); !ok {
			return false
		}
	}
	return true
}

func (x *Exec) boundsCheck(idx *Term, n int) {
	if idx.isC {
		if int64(sext(idx.c, idx.sort.Width)) < 0 || int(idx.c) >= n {
			panic(panicPath{fmt.Sprintf("index %d out of range [0,%d)", sext(idx.c, idx.sort.Width), n)})
		}
		return
	}
	oob := Not(bvcmp("bvult", idx, BV(uint64(n), idx.sort.Width)))
	if x.branch(oob) {
		panic(panicPath{fmt.Sprintf("symbolic index out of range [0,%d)", n)})
	}
}

func (x *Exec) index(idx *Term, n int) int {
	x.boundsCheck(idx, n)
	return x.concretize(idx, 0, n-1, false)
}

func (x *Exec) slice(fr *frame, ins *ssa.Slice) Value {
	base := x.get(fr, ins.X)
	bound := func(v ssa.Value, def, max int) int {
		if v == nil {
			return def
		}
		t := x.get(fr, v).(*Term)
		if !t.isC {
			oob := Not(bvcmp("bvule", t, BV(uint64(max), t.sort.Width)))
			if x.branch(oob) {
				panic(panicPath{"symbolic slice bound out of range"})
			}
		}
		i := x.concretize(t, 0, max, true)
		if i < 0 || i > max {
			panic(panicPath{fmt.Sprintf("slice bound %d out of range [0,%d]", i, max)})
		}
		return i
	}
	switch b := base.(type) {
	case SliceV:
		lo := bound(ins.Low, 0, b.cap)
		hi := bound(ins.High, b.len, b.cap)
		if lo > hi {
			panic(panicPath{"slice lo>hi"})
		}
		if b.a == nil {
			return SliceV{}
		}
		return SliceV{a: b.a, off: b.off + lo, len: hi - lo, cap: b.cap - lo}
	case *Str:
		lo := bound(ins.Low, 0, len(b.b))
		hi := bound(ins.High, len(b.b), len(b.b))
		if lo > hi {
			panic(panicPath{"slice lo>hi"})
		}
		return &Str{b: b.b[lo:hi]}
	case Ptr:
		a := b.o.(*ArrayObj)
		lo := bound(ins.Low, 0, len(a.e))
		hi := bound(ins.High, len(a.e), len(a.e))
		return SliceV{a: a, off: lo, len: hi - lo, cap: len(a.e) - lo}
	}
	panic("slice base")
}

func (x *Exec) strEq(a, b *Str) *Term {
	if len(a.b) != len(b.b) {
		return Bool(false)
	}
	r := Bool(true)
	for i := range a.b {
		r = And(r, bvcmp("=", a.b[i], b.b[i]))
	}
	return r
}

func (x *Exec) binop(op token.Token, a, b Value, t types.Type) Value {
	switch av := a.(type) {
	case *Term:
		bv := b.(*Term)
		if av.sort.Bool {
			switch op {
			case token.EQL:
				return Not(Or(And(av, Not(bv)), And(Not(av), bv)))
			case token.NEQ:
				return Or(And(av, Not(bv)), And(Not(av), bv))
			case token.LAND:
				return And(av, bv)
			case token.LOR:
				return Or(av, bv)
			}
			panic("bool op " + op.String())
		}
		if av.sort.FP {
			switch op {
			case token.ADD, token.SUB, token.MUL, token.QUO:
				r := fpbin(map[token.Token]string{token.ADD: "fp.add", token.SUB: "fp.sub", token.MUL: "fp.mul", token.QUO: "fp.div"}[op], av, bv)
				if t != nil && isFloat32(t) {
					r = fpRound32(r) // float32 arithmetic: the float64 result rounded once more is the float32 result (53 >= 2*24+2)
				}
				return r
			case token.EQL:
				return fpcmp("fp.eq", av, bv)
			case token.NEQ:
				return Not(fpcmp("fp.eq", av, bv))
			case token.LSS:
				return fpcmp("fp.lt", av, bv)
			case token.LEQ:
				return fpcmp("fp.leq", av, bv)
			case token.GTR:
				return fpcmp("fp.gt", av, bv)
			case token.GEQ:
				return fpcmp("fp.geq", av, bv)
			}
			panic("fp op " + op.String())
		}
		_, signed := width(t)
		if op == token.SHL || op == token.SHR {
			bv = Extend(bv, av.sort.Width, false)
		}
		switch op {
		case token.ADD:
			return bvbin("bvadd", av, bv)
		case token.SUB:
			return bvbin("bvsub", av, bv)
		case token.MUL:
			return bvbin("bvmul", av, bv)
		case token.QUO, token.REM:
			if x.branch(bvcmp("=", bv, BV(0, bv.sort.Width))) {
				panic(panicPath{"integer divide by zero"})
			}
			o := map[bool]map[token.Token]string{true: {token.QUO: "bvsdiv", token.REM: "bvsrem"}, false: {token.QUO: "bvudiv", token.REM: "bvurem"}}[signed][op]
			return bvbin(o, av, bv)
		case token.AND:
			return bvbin("bvand", av, bv)
		case token.OR:
			return bvbin("bvor", av, bv)
		case token.XOR:
			return bvbin("bvxor", av, bv)
		case token.AND_NOT:
			return bvbin("bvand", av, bvbin("bvxor", bv, BV(^uint64(0), bv.sort.Width)))
		case token.SHL:
			return bvbin("bvshl", av, bv)
		case token.SHR:
			if signed {
				return bvbin("bvashr", av, bv)
			}
			return bvbin("bvlshr", av, bv)
		case token.EQL:
			return bvcmp("=", av, bv)
		case token.NEQ:
			return Not(bvcmp("=", av, bv))
		case token.LSS:
			if signed {
				return bvcmp("bvslt", av, bv)
			}
			return bvcmp("bvult", av, bv)
		case token.LEQ:
			if signed {
				return bvcmp("bvsle", av, bv)
			}
			return bvcmp("bvule", av, bv)
		case token.GTR:
			if signed {
				return bvcmp("bvslt", bv, av)
			}
			return bvcmp("bvult", bv, av)
		case token.GEQ:
			if signed {
				return bvcmp("bvsle", bv, av)
			}
			return bvcmp("bvule", bv, av)
		}
	case *OpaqueStr:
		bo, ok := b.(*OpaqueStr)
		if !ok {
			panic(abortPath{"opaque number string compared with ordinary text", false})
		}
		switch op {
		case token.EQL:
			return x.opaqueEq(av, bo)
		case token.NEQ:
			return Not(x.opaqueEq(av, bo))
		}
		panic(abortPath{"opaque number string ordered/concatenated", false})
	case *Str:
		bs, ok := b.(*Str)
		if !ok {
			panic(abortPath{"opaque number string compared with ordinary text", false})
		}
		switch op {
		case token.EQL:
			return x.strEq(av, bs)
		case token.NEQ:
			return Not(x.strEq(av, bs))
		case token.ADD:
			return &Str{b: append(append([]*Term{}, av.b...), bs.b...)}
		case token.LSS, token.LEQ, token.GTR, token.GEQ:
			// lexicographic compare, built back to front
			n := len(av.b)
			if len(bs.b) < n {
				n = len(bs.b)
			}
			lt := Bool(len(av.b) < len(bs.b))
			eq := Bool(len(av.b) == len(bs.b))
			for k := n - 1; k >= 0; k-- {
				l := bvcmp("bvult", av.b[k], bs.b[k])
				e := bvcmp("=", av.b[k], bs.b[k])
				lt = Or(l, And(e, lt))
				eq = And(e, eq)
			}
			switch op {
			case token.LSS:
				return lt
			case token.LEQ:
				return Or(lt, eq)
			case token.GTR:
				return Not(Or(lt, eq))
			default:
				return Not(lt)
			}
		}
	case Ptr:
		switch op {
		case token.EQL:
			return Bool(av.o == b.(Ptr).o)
		case token.NEQ:
			return Bool(av.o != b.(Ptr).o)
		}
	case StructV:
		c := x.sameVal(av, b)
		if op == token.EQL {
			return c
		}
		return Not(c)
	case *Closure:
		isNil := av == nil
		if op == token.EQL {
			return Bool(isNil)
		}
		return Bool(!isNil)
	case *MapObj:
		isNil := av == nil
		if op == token.EQL {
			return Bool(isNil)
		}
		return Bool(!isNil)
	case nil:
		// untyped nil on the left
		return x.binop(op, b, a, t)
	case SliceV:
		// comparison with nil only
		isNil := av.a == nil
		if bs, ok := b.(SliceV); ok && bs.a != nil {
			isNil = false
			_ = bs
		}
		if op == token.EQL {
			return Bool(isNil)
		}
		return Bool(!isNil)
	case Iface:
		bi, _ := b.(Iface)
		eq := av.t == nil && bi.t == nil
		if av.t != nil && bi.t != nil && types.Identical(av.t, bi.t) {
			switch p := av.v.(type) {
			case Ptr:
				eq = p.o == bi.v.(Ptr).o
			case Native:
				bn, _ := bi.v.(Native)
				eq = p.v == bn.v
			case *Term:
				c := bvcmp("=", p, bi.v.(*Term))
				if op == token.EQL {
					return c
				}
				return Not(c)
			case *Str:
				c := x.strEq(p, bi.v.(*Str))
				if op == token.EQL {
					return c
				}
				return Not(c)
			}
		}
		if op == token.EQL {
			return Bool(eq)
		}
		return Bool(!eq)
	}
	panic(fmt.Sprintf("binop %s on %T", op, a))
}

func (x *Exec) convert(v Value, from, to types.Type) Value {
	if fw, fs := width(from); fw > 0 {
		if tw, _ := width(to); tw > 0 {
			return Extend(v.(*Term), tw, fs)
		}
		if isFloat(to) {
			if isFloat32(to) {
				// via float64: exact below 2^53, may double-round above (stated in DESIGN.md)
				return fpRound32(int64ToFP(Extend(v.(*Term), 64, fs), fs))
			}
			return int64ToFP(Extend(v.(*Term), 64, fs), fs)
		}
		if tb, ok := to.Underlying().(*types.Basic); ok && tb.Info()&types.IsString != 0 {
			// string(rune): concrete only
			t := v.(*Term)
			if !t.isC {
				// string(r) = utf8.AppendRune(nil, r) executed symbolically (forks on the encoding length)
				ar := x.prog.ImportedPackage("unicode/utf8").Func("AppendRune")
				r32 := Extend(t, 32, true)
				if fw > 32 {
					// values outside int32 encode as RuneError
					if x.branch(Not(bvcmp("=", Extend(r32, fw, true), t))) {
						return strOf("\uFFFD")
					}
				}
				sl := x.call(ar, []Value{SliceV{}, r32}, nil).(SliceV)
				return &Str{b: x.sliceBytes(sl)}
			}
			return strOf(string(rune(sext(t.c, fw))))
		}
	}
	if isFloat(from) {
		if isFloat(to) {
			if isFloat32(to) && !isFloat32(from) {
				return fpRound32(v.(*Term))
			}
			return v
		}
		if tw, tsigned := width(to); tw > 0 {
			// linux/amd64 lowering (validated natively): 64-bit signed = CVTTSD2SQ; uint64 = two-range sequence;
			// uint32 = CVTTSD2SQ truncated; all narrower kinds and int32 = CVTTSD2SL truncated
			f := v.(*Term)
			switch {
			case tw == 64 && tsigned:
				return fpToInt64(f)
			case tw == 64:
				two63 := FP(9223372036854775808.0)
				hi := bvbin("bvor", fpToInt64(fpbin("fp.sub", f, two63)), BV(0x8000000000000000, 64))
				return Ite(fpcmp("fp.lt", f, two63), fpToInt64(f), hi)
			case tw == 32 && !tsigned:
				return Extend(fpToInt64(f), 32, false)
			default:
				return Extend(fpToInt32(f), tw, false)
			}
		}
	}
	if _, ok := to.Underlying().(*types.Pointer); ok {
		return v // unsafe.Pointer <-> *T
	}
	if b, ok := to.Underlying().(*types.Basic); ok && b.Kind() == types.UnsafePointer {
		return v
	}
	switch tt := to.Underlying().(type) {
	case *types.Basic:
		if tt.Info()&types.IsString != 0 {
			if s, ok := v.(SliceV); ok { // []byte -> string
				st := &Str{b: make([]*Term, s.len)}
				for i := 0; i < s.len; i++ {
					st.b[i] = load(s.a.e[s.off+i]).(*Term)
				}
				return st
			}
		}
	case *types.Slice:
		if s, ok := v.(*Str); ok { // string -> []byte
			a := &ArrayObj{e: make([]Obj, len(s.b))}
			for i := range a.e {
				a.e[i] = &Cell{v: s.b[i]}
			}
			return SliceV{a: a, len: len(s.b), cap: len(s.b)}
		}
	}
	panic(fmt.Sprintf("convert %s -> %s", from, to))
}

func (x *Exec) valEq(a, b Value) *Term {
	switch a := a.(type) {
	case *Term:
		return bvcmp("=", a, b.(*Term))
	case *Str:
		return x.strEq(a, b.(*Str))
	case Ptr:
		return Bool(a.o == b.(Ptr).o)
	case Iface:
		return x.binop(token.EQL, a, b, nil).(*Term)
	}
	panic(fmt.Sprintf("valEq %T", a))
}

func (x *Exec) mapFind(m *MapObj, k Value) int {
	if m == nil {
		return -1
	}
	for i := range m.keys {
		if x.branch(x.valEq(m.keys[i], k)) {
			return i
		}
	}
	return -1
}

func (x *Exec) mapUpdate(m *MapObj, k, v Value) {
	if m.frozen {
		panic(panicPath{"write to a map of a parsed Program that is shared (the Program must be immutable once parsed)"})
	}
	if i := x.mapFind(m, k); i >= 0 {
		m.vals[i] = v
		return
	}
	m.keys = append(m.keys, k)
	m.vals = append(m.vals, v)
}

func (x *Exec) lookup(fr *frame, ins *ssa.Lookup) Value {
	base := x.get(fr, ins.X)
	if s, ok := base.(*Str); ok {
		i := x.index(x.get(fr, ins.Index).(*Term), len(s.b))
		return s.b[i]
	}
	m := base.(*MapObj)
	vt := ins.X.Type().Underlying().(*types.Map).Elem()
	i := x.mapFind(m, x.get(fr, ins.Index))
	var v Value
	if i >= 0 {
		v = m.vals[i]
	} else {
		v = zero(vt)
	}
	if ins.CommaOk {
		return Tuple{v, Bool(i >= 0)}
	}
	return v
}

type callee struct {
	builtin string
	fn      *ssa.Function
	bind    []Value
}

func (x *Exec) resolveCall(fr *frame, cc *ssa.CallCommon) (callee, []Value) {
	args := make([]Value, len(cc.Args))
	for i, a := range cc.Args {
		args[i] = x.get(fr, a)
	}
	if cc.IsInvoke() {
		recv := x.get(fr, cc.Value).(Iface)
		if recv.t == nil {
			panic(panicPath{"nil interface invoke " + cc.Method.Name()})
		}
		if nv, isNative := recv.v.(Native); isNative {
			if _, isType := nv.v.(*rtypeModel); isType {
				return callee{builtin: "rtype:" + cc.Method.Name()}, append([]Value{recv.v}, args...)
			}
			return callee{builtin: "opaque"}, args
		}
		m := x.prog.MethodSets.MethodSet(recv.t).Lookup(cc.Method.Pkg(), cc.Method.Name())
		if m == nil {
			panic(fmt.Sprintf("no method %s on %s", cc.Method.Name(), recv.t))
		}
		fn := x.prog.MethodValue(m)
		return callee{fn: fn}, append([]Value{recv.v}, args...)
	}
	switch f := cc.Value.(type) {
	case *ssa.Builtin:
		return callee{builtin: f.Name()}, args
	case *ssa.Function:
		return callee{fn: f}, args
	}
	c := x.get(fr, cc.Value).(*Closure)
	if c == nil {
		panic(panicPath{"nil func call"})
	}
	return callee{fn: c.fn, bind: c.bind}, args
}

func (x *Exec) invoke(c callee, args []Value, cc *ssa.CallCommon) Value {
	if c.builtin != "" {
		return x.builtin(c.builtin, args, cc)
	}
	return x.call(c.fn, args, c.bind)
}

func (x *Exec) doCall(fr *frame, cc *ssa.CallCommon) Value {
	c, args := x.resolveCall(fr, cc)
	return x.invoke(c, args, cc)
}

func (x *Exec) builtin(name string, args []Value, cc *ssa.CallCommon) Value {
	switch name {
	case "len":
		switch a := args[0].(type) {
		case *Str:
			return BV(uint64(len(a.b)), 64)
		case SliceV:
			return BV(uint64(a.len), 64)
		case *MapObj:
			if a == nil {
				return BV(0, 64)
			}
			return BV(uint64(len(a.keys)), 64)
		case ArrayV:
			return BV(uint64(len(a.e)), 64)
		case Ptr:
			return BV(uint64(len(a.o.(*ArrayObj).e)), 64)
		}
	case "cap":
		return BV(uint64(args[0].(SliceV).cap), 64)
	case "print", "println":
		return nil
	case "close":
		load(args[0].(Ptr).o).(Native).v.(*chanModel).closed = true
		return nil
	case "append":
		s := args[0].(SliceV)
		var add []Value
		switch e := args[1].(type) {
		case SliceV:
			for i := 0; i < e.len; i++ {
				add = append(add, load(e.a.e[e.off+i]))
			}
		case *Str:
			for _, b := range e.b {
				add = append(add, b)
			}
		}
		if len(add) == 0 {
			return s
		}
		et := cc.Args[0].Type().Underlying().(*types.Slice).Elem()
		if s.len+len(add) <= s.cap {
			for i, v := range add {
				store(s.a.e[s.off+s.len+i], v)
			}
			s.len += len(add)
			return s
		}
		nc := 2*s.cap + len(add)
		a := &ArrayObj{e: make([]Obj, nc)}
		for i := range a.e {
			a.e[i] = newObj(et)
		}
		for i := 0; i < s.len; i++ {
			store(a.e[i], load(s.a.e[s.off+i]))
		}
		for i, v := range add {
			store(a.e[s.len+i], v)
		}
		return SliceV{a: a, len: s.len + len(add), cap: nc}
	case "copy":
		d := args[0].(SliceV)
		n := 0
		switch s := args[1].(type) {
		case SliceV:
			n = min(d.len, s.len)
			tmp := make([]Value, n)
			for i := 0; i < n; i++ {
				tmp[i] = load(s.a.e[s.off+i])
			}
			for i := 0; i < n; i++ {
				store(d.a.e[d.off+i], tmp[i])
			}
		case *Str:
			n = min(d.len, len(s.b))
			for i := 0; i < n; i++ {
				store(d.a.e[d.off+i], s.b[i])
			}
		}
		return BV(uint64(n), 64)
	}
	if strings.HasPrefix(name, "rtype:") {
		return x.rtypeMethod(name[6:], args)
	}
	switch name {
	case "opaque":
		res := cc.Signature().Results()
		if res.Len() == 1 {
			if _, ok := res.At(0).Type().Underlying().(*types.Interface); ok {
				return opaqueIface
			}
			return zero(res.At(0).Type())
		}
		if res.Len() == 0 {
			return nil
		}
		return zero(res)
	case "delete":
		m := args[0].(*MapObj)
		if i := x.mapFind(m, args[1]); i >= 0 {
			m.keys = append(m.keys[:i:i], m.keys[i+1:]...)
			m.vals = append(m.vals[:i:i], m.vals[i+1:]...)
		}
		return nil
	case "recover":
		// the panicking frame is the caller of the deferred function: search frames for panicking
		for k := len(x.frames) - 2; k >= 0; k-- {
			f := x.frames[k]
			if f.panicking != nil && !f.recovered {
				f.recovered = true
				v := f.panicking.v
				if iv, ok := v.(Iface); ok {
					return iv
				}
				return Iface{t: types.Typ[types.String], v: v}
			}
		}
		return Iface{}
	case "min", "max":
		a, b := args[0].(*Term), args[1].(*Term)
		lt := bvcmp("bvslt", a, b)
		if name == "max" {
			lt = Not(lt)
		}
		return Ite(lt, a, b)
	}
	panic("builtin " + name)
}

func strOf(s string) *Str {
	st := &Str{b: make([]*Term, len(s))}
	for i := 0; i < len(s); i++ {
		st.b[i] = BV(uint64(s[i]), 8)
	}
	return st
}

func (s *Str) concrete() (string, bool) {
	b := make([]byte, len(s.b))
	for i, t := range s.b {
		if !t.isC {
			return "", false
		}
		b[i] = byte(t.c)
	}
	return string(b), true
}

func (x *Exec) callInit(in *ssa.Function) {
	if os.Getenv("GOSYM_TRACEINIT") != "" {
		t0 := time.Now()
		defer func() { fmt.Fprintln(os.Stderr, "INIT", in.Pkg.Pkg.Path(), time.Since(t0)) }()
	}
	saved := x.curInit
	x.curInit = in
	x.call(in, nil, nil)
	x.curInit = saved
}

var opaqueIface = Iface{t: types.Typ[types.UnsafePointer], v: Native{"opaque"}}

// tableLookup builds vals[idx] as an ite chain over runs of equal entries (compact for constant tables)
func tableLookup(vals []*Term, idx *Term) *Term {
	type run struct {
		lo, hi int
		v      *Term
	}
	var runs []run
	for k, v := range vals {
		if len(runs) > 0 && runs[len(runs)-1].v == v {
			runs[len(runs)-1].hi = k
		} else {
			runs = append(runs, run{k, k, v})
		}
	}
	w := idx.sort.Width
	r := runs[len(runs)-1].v
	for k := len(runs) - 2; k >= 0; k-- {
		// idx <= hi (runs are ordered, earlier runs already excluded by the chain order)
		r = Ite(bvcmp("bvule", idx, BV(uint64(runs[k].hi), w)), runs[k].v, r)
	}
	return r
}
