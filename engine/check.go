package main

import (
	"encoding/json"
	"fmt"
	"os"
	"path/filepath"
	"sort"
	"strconv"
	"strings"
	"sync"
	"sync/atomic"
	"time"
)

type shardJob struct {
	spec  HarnessSpec
	shard int
	n     int
}

type harnessSummary struct {
	Harness        string            `json:"harness"`
	Pkg            string            `json:"pkg"`
	Solver         string            `json:"solver"`
	Desc           string            `json:"what"`
	Shards         int               `json:"subtree_tasks"`
	Complete       bool              `json:"complete"`
	Paths          int               `json:"paths"`
	Decisions      int               `json:"decisions"`
	Queries        int               `json:"solver_queries"`
	SolverSec      float64           `json:"solver_time_s"`
	WallSecMax     float64           `json:"cpu_wall_s_all_workers"`
	Asserts        int               `json:"assertion_checks"`
	Discharged     int               `json:"assertion_checks_unsat"`
	Violations     int               `json:"violating_paths"`
	Known          map[string]int    `json:"known_findings_matched,omitempty"`
	Inconclusive   map[string]int    `json:"inconclusive_paths,omitempty"`
	InconclusiveEx map[string]string `json:"inconclusive_where,omitempty"`
	Errors         []string          `json:"errors,omitempty"`
	Bounds         []string          `json:"bounds"`
	Reach          map[string]int    `json:"reach_markers,omitempty"`
	Funcs          []string          `json:"-"`
	Samples        []string          `json:"-"`
	Outside        []string          `json:"outside_claim,omitempty"`
	Stubs          []string          `json:"stubs,omitempty"`
	Units          []string          `json:"units,omitempty"`
	viol           []Witness
	sampleVecs     []Witness
	knownW         map[string]Witness
}

func runCheck(args []string) int {
	t0 := time.Now()
	if len(args) < 1 {
		fatal("usage: gosym check <ID> [--tier quick|thorough] [--only Func] [--jobs N]")
	}
	prop := args[0]
	tier := envOr("VERIF_TIER", "quick")
	only := ""
	jobs := 16
	for i := 1; i < len(args); i++ {
		switch args[i] {
		case "--tier":
			i++
			tier = args[i]
		case "--only":
			i++
			only = args[i]
		case "--jobs":
			i++
			jobs, _ = strconv.Atoi(args[i])
		}
	}
	if tier != "thorough" {
		tier = "quick"
	}
	ti := 0
	if tier == "thorough" {
		ti = 1
	}
	seed, _ := strconv.Atoi(os.Getenv("VERIF_SEED"))
	reg := loadRegistry()
	var specs []HarnessSpec
	for _, h := range reg {
		if h.Prop != prop || (only != "" && h.Func != only) || (h.Tier == "thorough" && ti == 0) {
			continue
		}
		specs = append(specs, h)
	}
	if len(specs) == 0 {
		fatal("no harness registered for %s", prop)
	}
	evPath := filepath.Join(envOr("GOSYM_EVIDENCE_DIR", filepath.Join(verifDir, "evidence")), prop+".json")
	if only == "" {
		os.Remove(evPath)
	}

	// ---- load once, then run frontier and subtree tasks of all harnesses on a pool of worker goroutines
	pkgSet := map[string]bool{}
	var pkgDirs []string
	for _, s := range specs {
		if !pkgSet[s.Pkg] {
			pkgSet[s.Pkg] = true
			pkgDirs = append(pkgDirs, s.Pkg)
		}
	}
	prog, ssaPkgs, loadSec := loadProgram(pkgDirs)
	harnessPresent = func(pkg, fn string) bool {
		p := ssaPkgs[pkg]
		return p == nil || p.Func(fn) != nil // packages that were not loaded are not touched by this run
	}
	// harnesses whose file had to be left out because it does not compile against the current tree
	var uncompiled []HarnessSpec
	{
		kept := specs[:0:0]
		for _, s := range specs {
			if p := ssaPkgs[s.Pkg]; p == nil || p.Func(s.Func) == nil {
				uncompiled = append(uncompiled, s)
			} else {
				kept = append(kept, s)
			}
		}
		specs = kept
	}
	active := activeKnown()
	type task struct {
		h    int
		item *workItem
	}
	var (
		mu        sync.Mutex
		cond      = sync.NewCond(&mu)
		queue     []task
		nPending  int
		idle      int32
		results   []*ShardResult
		work      []shardJob
		deadlines = make([]time.Time, len(specs))
		tasksOf   = make([]int, len(specs))
		dropped   = make([]int, len(specs))
	)
	for i := range specs {
		queue = append(queue, task{h: i})
		nPending++
	}
	if seed != 0 { // VERIF_SEED only changes the scheduling order
		sort.SliceStable(queue, func(a, b int) bool {
			return hashDecisions([]int{seed, queue[a].h})%97 < hashDecisions([]int{seed, queue[b].h})%97
		})
	}
	var wg sync.WaitGroup
	for w := 0; w < jobs; w++ {
		wg.Add(1)
		go func() {
			defer wg.Done()
			var cur *Exec
			curH := -1
			flush := func() {
				if cur != nil {
					cur.finish()
					cur.solver.Close()
					mu.Lock()
					results = append(results, cur.res)
					work = append(work, shardJob{spec: specs[curH]})
					mu.Unlock()
					cur = nil
				}
			}
			for {
				mu.Lock()
				for len(queue) == 0 && nPending > 0 {
					atomic.AddInt32(&idle, 1)
					cond.Wait()
					atomic.AddInt32(&idle, -1)
				}
				if len(queue) == 0 {
					mu.Unlock()
					flush()
					return
				}
				t := queue[0]
				queue = queue[1:]
				if t.item == nil {
					deadlines[t.h] = time.Now().Add(time.Duration(specs[t.h].Timeout[ti]) * time.Second)
				}
				dl := deadlines[t.h]
				mu.Unlock()
				if time.Now().After(dl) {
					mu.Lock()
					dropped[t.h]++
					nPending--
					cond.Broadcast()
					mu.Unlock()
					continue
				}
				if curH != t.h {
					flush()
					cur = newExec(prog, ssaPkgs[specs[t.h].Pkg], specs[t.h], ti, active)
					curH = t.h
					th := t.h
					cur.hungry = func() bool { return atomic.LoadInt32(&idle) > 0 }
					cur.donate = func(items []workItem) {
						mu.Lock()
						for i := range items {
							queue = append(queue, task{h: th, item: &items[i]})
							nPending++
						}
						tasksOf[th] += len(items)
						cond.Broadcast()
						mu.Unlock()
					}
				}
				fn := ssaPkgs[specs[t.h].Pkg].Func(specs[t.h].Func)
				var front []workItem
				if fn == nil {
					cur.res.Error = "no function " + specs[t.h].Func
					cur.res.Complete = false
				} else {
					it := t.item
					if it == nil {
						it = &workItem{}
					}
					front = cur.runTask(fn, it, dl)
				}
				mu.Lock()
				for i := range front {
					queue = append(queue, task{h: t.h, item: &front[i]})
					nPending++
				}
				tasksOf[t.h] += len(front)
				nPending--
				cond.Broadcast()
				mu.Unlock()
			}
		}()
	}
	wg.Wait()
	for h, n := range dropped {
		if n > 0 {
			r := newShardResult(specs[h].Func, 0, 1)
			r.Error = fmt.Sprintf("time limit: %d of %d subtree tasks not started", n, tasksOf[h])
			results = append(results, r)
			work = append(work, shardJob{spec: specs[h]})
		}
	}
	exploreSec := time.Since(t0).Seconds() - loadSec

	// ---- aggregate per harness
	sums := map[string]*harnessSummary{}
	var order []string
	for _, s := range specs {
		sums[s.Func] = &harnessSummary{Harness: s.Func, Pkg: s.Pkg, Solver: s.Solver, Desc: s.Desc, Shards: 0, Complete: true,
			Known: map[string]int{}, Inconclusive: map[string]int{}, InconclusiveEx: map[string]string{}, Reach: map[string]int{}, knownW: map[string]Witness{},
			Outside: s.Outside, Stubs: s.Stubs, Units: s.Units}
		order = append(order, s.Func)
	}
	funcSet := map[string]bool{}
	solverVersions := map[string]bool{}
	for i, r := range results {
		h := sums[work[i].spec.Func]
		solverVersions[work[i].spec.Solver] = true
		if r.Error != "" {
			if len(h.Errors) < 4 {
				h.Errors = append(h.Errors, r.Error)
			}
		}
		if !r.Complete {
			h.Complete = false
		}
		h.Paths += r.Paths
		h.Decisions += r.Decisions
		h.Queries += r.Queries
		h.SolverSec += r.SolverSec
		h.WallSecMax += r.WallSec
		h.Asserts += r.Asserts
		h.Discharged += r.Discharged
		h.Violations += r.ViolationCount
		h.viol = append(h.viol, r.Violations...)
		for k, v := range r.Known {
			h.Known[k] += v
		}
		for k, v := range r.KnownWitness {
			if _, ok := h.knownW[k]; !ok {
				h.knownW[k] = v
			}
		}
		for k, v := range r.Inconclusive {
			h.Inconclusive[k] += v
		}
		for k, v := range r.InconclusiveEx {
			if _, ok := h.InconclusiveEx[k]; !ok {
				if len(v) > 1200 {
					v = v[:1200]
				}
				h.InconclusiveEx[k] = v
			}
		}
		if r.SolverUnknown > 0 {
			h.Inconclusive["solver unknown/timeout/error answers"] += r.SolverUnknown
		}
		for _, e := range r.SolverErrors {
			if len(h.Errors) < 5 {
				h.Errors = append(h.Errors, "solver: "+e)
			}
		}
		for k, v := range r.Reach {
			h.Reach[k] += v
		}
		for _, b := range r.Bounds {
			found := false
			for _, b2 := range h.Bounds {
				if b2 == b {
					found = true
				}
			}
			if !found {
				h.Bounds = append(h.Bounds, b)
			}
		}
		for _, f := range r.Funcs {
			funcSet[f] = true
		}
		if len(h.Samples) < 3 {
			h.Samples = append(h.Samples, r.Samples...)
		}
		if len(h.sampleVecs) < 3 {
			h.sampleVecs = append(h.sampleVecs, r.SampleVectors...)
		}
	}

	// ---- native replay of every distinct violation (first witness per harness+message) and of known-finding witnesses
	known := loadKnown()
	knownByID := map[string]KnownFinding{}
	for _, k := range known {
		knownByID[k.ID] = k
	}
	type pending struct {
		spec   HarnessSpec
		w      Witness
		id     string
		kf     string
		sample bool
	}
	var pend []pending
	specOf := map[string]HarnessSpec{}
	for _, s := range specs {
		specOf[s.Func] = s
	}
	for _, name := range order {
		h := sums[name]
		seen := map[string]int{}
		for _, w := range h.viol {
			if seen[w.Msg] >= 6 {
				continue
			}
			seen[w.Msg]++
			pend = append(pend, pending{spec: specOf[name], w: w, id: fmt.Sprintf("v%d", len(pend))})
		}
		for id, w := range h.knownW {
			pend = append(pend, pending{spec: specOf[name], w: w, id: fmt.Sprintf("k%d", len(pend)), kf: id})
		}
		for k, w := range h.sampleVecs {
			if k >= 2 {
				break
			}
			pend = append(pend, pending{spec: specOf[name], w: w, id: fmt.Sprintf("s%d", len(pend)), sample: true})
		}
	}
	byPkg := map[string][]ReplayJob{}
	for _, p := range pend {
		if p.spec.Replay == "none" {
			continue
		}
		byPkg[p.spec.Pkg] = append(byPkg[p.spec.Pkg], ReplayJob{ID: p.id, Harness: p.spec.Func, Values: p.w.Trace})
	}
	status := map[string]string{}
	fails := map[string][]string{}
	replayLog := ""
	for pkg, js := range byPkg {
		st, fl, out := nativeReplay(pkg, js, reg)
		for k, v := range st {
			status[k] = v
		}
		for k, v := range fl {
			fails[k] = v
		}
		if len(st) < len(js) {
			replayLog += out
		}
	}

	anyReproduced := map[string]bool{}
	for _, p := range pend {
		if p.kf == "" && !p.sample && (p.spec.Replay == "none" || reproduced(p.w, status[p.id], fails[p.id])) {
			anyReproduced[p.spec.Func+"|"+p.w.Msg] = true
		}
	}
	exit := 0
	var violLines, knownLines, inconcLines []string
	replayed := 0
	mismatches := 0
	var samples []interface{}
	reportedMsg := map[string]bool{}
	samplesOK := 0
	for _, p := range pend {
		if p.sample {
			// differential validation of the encoder: a path the engine found violation-free must pass natively
			if p.spec.Replay == "none" {
				continue
			}
			replayed++
			switch status[p.id] {
			case "PASS":
				samplesOK++
			case "NOT-REPLAYABLE":
				replayed-- // the native environment cannot reproduce this input (stated by the harness)
			case "FAIL", "PANIC":
				path := writeReplayFile(prop, p.spec, Witness{Msg: "native failure on a path the engine considered violation-free: " + strings.Join(fails[p.id], "; "), Trace: p.w.Trace, Inputs: p.w.Inputs}, status[p.id])
				violLines = append(violLines, fmt.Sprintf("VIOLATION property=%s replay=%s", prop, path))
				fmt.Printf("  harness=%s: the native run of a sampled path FAILS although the engine found no violation on it (%v); witness: %s\n", p.spec.Func, fails[p.id], p.w.Inputs)
				exit = 1
			default:
				mismatches++
				inconcLines = append(inconcLines, fmt.Sprintf("INCONCLUSIVE property=%s harness=%s reason=sample path could not be validated natively (status %q) witness %s", prop, p.spec.Func, status[p.id], p.w.Inputs))
			}
			continue
		}
		ok := false
		native := "engine-only (no native replay for this harness)"
		if p.spec.Replay == "none" {
			ok = true
		} else {
			native = fmt.Sprintf("%s %v", status[p.id], fails[p.id])
			ok = reproduced(p.w, status[p.id], fails[p.id])
			replayed++
		}
		if p.kf != "" {
			kf := knownByID[p.kf]
			if ok {
				knownLines = append(knownLines, fmt.Sprintf("KNOWN-FINDING: property=%s %s [%s; harness %s; witness %s]", prop, kf.What, kf.ID, p.spec.Func, p.w.Inputs))
			} else {
				mismatches++
				inconcLines = append(inconcLines, fmt.Sprintf("INCONCLUSIVE property=%s harness=%s reason=known finding %s matched symbolically but its witness does not reproduce natively (%s)", prop, p.spec.Func, p.kf, native))
			}
			continue
		}
		key := p.spec.Func + "|" + p.w.Msg
		if !ok && anyReproduced[key] {
			continue
		}
		if ok {
			if reportedMsg[key] {
				continue
			}
			reportedMsg[key] = true
			path := writeReplayFile(prop, p.spec, p.w, native)
			violLines = append(violLines, fmt.Sprintf("VIOLATION property=%s replay=%s", prop, path))
			fmt.Printf("  harness=%s failed: %s\n  witness: %s\n  native replay: %s\n", p.spec.Func, p.w.Msg, p.w.Inputs, native)
			samples = append(samples, map[string]interface{}{"violation": p.w.Msg, "harness": p.spec.Func, "witness": p.w.Inputs, "vector": p.w.Trace, "native": native})
			exit = 1
		} else if !reportedMsg[key] {
			reportedMsg[key] = true
			mismatches++
			inconcLines = append(inconcLines, fmt.Sprintf("INCONCLUSIVE property=%s harness=%s reason=ENCODER-MISMATCH: model does not reproduce natively (%s) for %q witness %s vector %v", prop, p.spec.Func, native, p.w.Msg, p.w.Inputs, p.w.Trace))
		}
	}

	// ---- verdicts
	totalPaths, totalDec, totalQ, totalAsserts, totalDis := 0, 0, 0, 0, 0
	totalSolver := 0.0
	incompleteAll := true
	var hs []*harnessSummary
	for _, name := range order {
		h := sums[name]
		hs = append(hs, h)
		totalPaths += h.Paths
		totalDec += h.Decisions
		totalQ += h.Queries
		totalAsserts += h.Asserts
		totalDis += h.Discharged
		totalSolver += h.SolverSec
		if !h.Complete || len(h.Errors) > 0 {
			inconcLines = append(inconcLines, fmt.Sprintf("INCONCLUSIVE property=%s harness=%s reason=%s", prop, name, strings.Join(h.Errors, "; ")+map[bool]string{true: "", false: " (bound not completed within the time limit)"}[h.Complete]))
		} else {
			incompleteAll = false
		}
		for why, n := range h.Inconclusive {
			if n == 0 {
				continue // informational note, kept in the evidence only
			}
			inconcLines = append(inconcLines, fmt.Sprintf("INCONCLUSIVE property=%s harness=%s paths=%d reason=%s", prop, name, n, why))
		}
		if h.Complete && h.Asserts == 0 && len(h.Errors) == 0 {
			inconcLines = append(inconcLines, fmt.Sprintf("INCONCLUSIVE property=%s harness=%s reason=vacuous: no assertion was reached", prop, name))
		}
		for _, s := range h.Samples {
			if len(samples) < 8 {
				samples = append(samples, map[string]interface{}{"harness": name, "explored_path": s})
			}
		}
	}
	for _, l := range knownLines {
		fmt.Println(l)
	}
	for _, l := range inconcLines {
		fmt.Println(l)
	}
	for _, l := range violLines {
		fmt.Println(l)
	}
	if replayLog != "" && len(replayLog) < 6000 {
		fmt.Println("replay output:\n" + replayLog)
	}
	for _, u := range uncompiled {
		fmt.Printf("INCONCLUSIVE property=%s harness=%s reason=the harness does not compile against the current tree (it refers to something the tree no longer has); the other harnesses were run\n", prop, u.Func)
	}
	if exit == 0 && (incompleteAll || len(uncompiled) > 0) {
		exit = 2
	}
	if exit == 0 && mismatches > 0 {
		exit = 2
	}
	var funcs []string
	for f := range funcSet {
		funcs = append(funcs, f)
	}
	sort.Strings(funcs)
	if len(samples) == 0 {
		samples = append(samples, "no symbolic inputs on any path")
	}
	var kfMatched []string
	for _, l := range knownLines {
		kfMatched = append(kfMatched, l)
	}
	ev := map[string]interface{}{
		"property_id": prop,
		"tier":        tier,
		"seed":        seed,
		"level":       "model_checking",
		"wall_s":      time.Since(t0).Seconds(),
		"violations":  len(violLines),
		"coverage": map[string]interface{}{
			"states":                          totalPaths,
			"transitions":                     totalDec,
			"traces_validated_against_impl":   replayed,
			"samples":                         samples,
			"obligations":                     totalAsserts,
			"discharged":                      totalDis,
			"queries":                         totalQ,
			"solver_time_s":                   totalSolver,
			"load_and_ssa_build_s":            loadSec,
			"exploration_wall_s":              exploreSec,
			"solvers":                         solverNames(solverVersions),
			"harnesses":                       hs,
			"functions_encoded":               funcs,
			"functions_encoded_count":         len(funcs),
			"inconclusive":                    inconcLines,
			"known_findings_matched":          kfMatched,
			"encoder_mismatches":              mismatches,
			"sample_paths_validated_natively": samplesOK,
			"explanation":                     "states = complete symbolic paths explored (each path covers every input satisfying its path condition); transitions = solver-decided branch decisions; obligations = assertion checks posed to the SMT solver on those paths, discharged = those answered unsat; every sat answer is replayed natively against the real build before it is reported",
			"exhaustive":                      false,
		},
		"assumptions": []string{
			"go/ssa v0.29.0 lowering of /repo's current working tree is faithful; gosym's instruction semantics (validated by native replay of every counterexample)",
			"SMT solvers z3 4.8.12 / cvc5 1.0.x answer unsat correctly",
			"sizes are concrete case splits within the stated bounds; nothing is claimed beyond them",
			"environment stubs listed per harness (regexp contract, strconv digit conversion as an uninterpreted function, fmt on concrete arguments evaluated natively)",
			"float-to-int conversion modelled as linux/amd64 CVTTSD2SQ",
		},
	}
	b, _ := json.MarshalIndent(ev, "", " ")
	os.MkdirAll(filepath.Dir(evPath), 0755)
	if only == "" {
		os.WriteFile(evPath, b, 0644)
	}
	fmt.Printf("check %s tier=%s: harnesses=%d paths=%d decisions=%d queries=%d assertion-checks=%d unsat=%d violations=%d known=%d inconclusive=%d wall=%.1fs exit=%d\n",
		prop, tier, len(specs), totalPaths, totalDec, totalQ, totalAsserts, totalDis, len(violLines), len(knownLines), len(inconcLines), time.Since(t0).Seconds(), exit)
	return exit
}

func solverNames(m map[string]bool) []string {
	var out []string
	for k := range m {
		out = append(out, k)
	}
	sort.Strings(out)
	return out
}
