package main

import (
	"math"
	"sync"
)

// ---------- concrete evaluation of terms (used to avoid solver calls; never to decide "unsat") ----------

type evalCtx struct {
	env  map[*Term]uint64
	memo map[*Term]uint64
	bad  bool // met something that cannot be evaluated (uninterpreted function, unspecified conversion)
}

func evalTerm(t *Term, env map[*Term]uint64) (uint64, bool) {
	c := &evalCtx{env: env, memo: map[*Term]uint64{}}
	v := c.ev(t)
	return v, !c.bad
}

func b2u(b bool) uint64 {
	if b {
		return 1
	}
	return 0
}

func (c *evalCtx) ev(t *Term) uint64 {
	if t.isC {
		return t.c
	}
	if t.sym {
		v, ok := c.env[t]
		if !ok {
			// a symbol the model does not mention is unconstrained so far: any value extends the model
			c.env[t] = 0
			return 0
		}
		return v
	}
	if v, ok := c.memo[t]; ok {
		return v
	}
	v := c.ev1(t)
	c.memo[t] = v
	return v
}

func f64(u uint64) float64 { return math.Float64frombits(u) }
func u64(f float64) uint64 {
	if f != f {
		return 0x7ff8000000000001
	}
	return math.Float64bits(f)
}

func (c *evalCtx) ev1(t *Term) uint64 {
	a := t.args
	switch t.op {
	case "not":
		return 1 - c.ev(a[0])&1
	case "and":
		if c.ev(a[0]) == 0 {
			return 0
		}
		return c.ev(a[1])
	case "ite":
		if c.ev(a[0]) != 0 {
			return c.ev(a[1])
		}
		return c.ev(a[2])
	case "=":
		x, y := c.ev(a[0]), c.ev(a[1])
		if a[0].sort.FP {
			fx, fy := f64(x), f64(y)
			if fx != fx || fy != fy {
				return b2u(fx != fx && fy != fy)
			}
		}
		return b2u(x == y)
	}
	w := 64
	if len(a) > 0 && !a[0].sort.FP && !a[0].sort.Bool {
		w = a[0].sort.Width
	}
	m := mask(w)
	switch t.op {
	case "bvadd":
		return (c.ev(a[0]) + c.ev(a[1])) & m
	case "bvsub":
		return (c.ev(a[0]) - c.ev(a[1])) & m
	case "bvmul":
		return (c.ev(a[0]) * c.ev(a[1])) & m
	case "bvand":
		return c.ev(a[0]) & c.ev(a[1])
	case "bvor":
		return c.ev(a[0]) | c.ev(a[1])
	case "bvxor":
		return c.ev(a[0]) ^ c.ev(a[1])
	case "bvshl":
		x, y := c.ev(a[0]), c.ev(a[1])
		if y >= uint64(w) {
			return 0
		}
		return (x << y) & m
	case "bvlshr":
		x, y := c.ev(a[0]), c.ev(a[1])
		if y >= uint64(w) {
			return 0
		}
		return x >> y
	case "bvashr":
		x, y := c.ev(a[0]), c.ev(a[1])
		if y >= uint64(w) {
			y = uint64(w - 1)
		}
		return uint64(sext(x, w)>>y) & m
	case "bvudiv":
		x, y := c.ev(a[0]), c.ev(a[1])
		if y == 0 {
			return m
		}
		return x / y
	case "bvurem":
		x, y := c.ev(a[0]), c.ev(a[1])
		if y == 0 {
			return x
		}
		return x % y
	case "bvsdiv":
		x, y := sext(c.ev(a[0]), w), sext(c.ev(a[1]), w)
		if y == 0 {
			if x < 0 {
				return 1
			}
			return m
		}
		if y == -1 {
			return uint64(-x) & m
		}
		return uint64(x/y) & m
	case "bvsrem":
		x, y := sext(c.ev(a[0]), w), sext(c.ev(a[1]), w)
		if y == 0 {
			return uint64(x) & m
		}
		if y == -1 {
			return 0
		}
		return uint64(x%y) & m
	case "bvult":
		return b2u(c.ev(a[0]) < c.ev(a[1]))
	case "bvule":
		return b2u(c.ev(a[0]) <= c.ev(a[1]))
	case "bvslt":
		return b2u(sext(c.ev(a[0]), w) < sext(c.ev(a[1]), w))
	case "bvsle":
		return b2u(sext(c.ev(a[0]), w) <= sext(c.ev(a[1]), w))
	case "extract":
		return c.ev(a[0]) & mask(t.param)
	case "zero_extend":
		return c.ev(a[0])
	case "sign_extend":
		return uint64(sext(c.ev(a[0]), w)) & mask(t.param)
	case "fp.add":
		return u64(f64(c.ev(a[0])) + f64(c.ev(a[1])))
	case "fp.sub":
		return u64(f64(c.ev(a[0])) - f64(c.ev(a[1])))
	case "fp.mul":
		return u64(f64(c.ev(a[0])) * f64(c.ev(a[1])))
	case "fp.div":
		return u64(f64(c.ev(a[0])) / f64(c.ev(a[1])))
	case "fp.neg":
		return u64(-f64(c.ev(a[0])))
	case "fp.abs":
		return u64(math.Abs(f64(c.ev(a[0]))))
	case "fp.isNaN":
		f := f64(c.ev(a[0]))
		return b2u(f != f)
	case "fp.isInfinite":
		return b2u(math.IsInf(f64(c.ev(a[0])), 0))
	case "fp.eq":
		return b2u(f64(c.ev(a[0])) == f64(c.ev(a[1])))
	case "fp.lt":
		return b2u(f64(c.ev(a[0])) < f64(c.ev(a[1])))
	case "fp.leq":
		return b2u(f64(c.ev(a[0])) <= f64(c.ev(a[1])))
	case "fp.gt":
		return b2u(f64(c.ev(a[0])) > f64(c.ev(a[1])))
	case "fp.geq":
		return b2u(f64(c.ev(a[0])) >= f64(c.ev(a[1])))
	case "fp.trunc":
		return u64(math.Trunc(f64(c.ev(a[0]))))
	case "fp.to_sbv":
		f := f64(c.ev(a[0]))
		if t.param == 32 {
			if f != f || f >= 2147483648.0 || f <= -2147483649.0 {
				c.bad = true
				return 0
			}
			return uint64(int64(f)) & mask(32)
		}
		if f != f || f >= 9223372036854775808.0 || f < -9223372036854775808.0 {
			c.bad = true // unspecified in SMT-LIB (the engine guards it with an ite, so this branch is not normally evaluated)
			return 0
		}
		return uint64(int64(f))
	case "fp.round32":
		return u64(float64(float32(f64(c.ev(a[0])))))
	case "to_fp":
		return u64(float64(sext(c.ev(a[0]), w)))
	case "to_fp_unsigned":
		return u64(float64(c.ev(a[0])))
	}
	c.bad = true
	return 0
}

// ---------- free symbols of a term (cached) ----------

var varsCache sync.Map // *Term -> []*Term

func varsOf(t *Term) []*Term {
	if t.isC {
		return nil
	}
	if t.sym {
		return []*Term{t}
	}
	if v, ok := varsCache.Load(t); ok {
		return v.([]*Term)
	}
	seen := map[*Term]bool{}
	var out []*Term
	var walk func(u *Term)
	walk = func(u *Term) {
		if u.isC || seen[u] {
			return
		}
		seen[u] = true
		if u.sym {
			out = append(out, u)
			return
		}
		if u.op == "" {
			// opaque text without structure: cannot happen for terms built through mkOp
			return
		}
		for _, a := range u.args {
			walk(a)
		}
	}
	walk(t)
	varsCache.Store(t, out)
	return out
}

// ---------- truth sets of single-variable constraints over small bit-vectors ----------

type bitset [4]uint64

func (b *bitset) and(o *bitset) bitset {
	return bitset{b[0] & o[0], b[1] & o[1], b[2] & o[2], b[3] & o[3]}
}
func (b *bitset) empty() bool { return b[0]|b[1]|b[2]|b[3] == 0 }
func (b *bitset) first() int {
	for i := 0; i < 256; i++ {
		if b[i/64]&(1<<uint(i%64)) != 0 {
			return i
		}
	}
	return -1
}
func (b *bitset) has(i uint64) bool { return i < 256 && b[i/64]&(1<<uint(i%64)) != 0 }

func fullSet(w int) bitset {
	var b bitset
	for i := 0; i < 1<<uint(w); i++ {
		b[i/64] |= 1 << uint(i%64)
	}
	return b
}

type truthEntry struct {
	set bitset
	ok  bool
}

var truthCache sync.Map // *Term -> truthEntry

// truthSet returns the set of values of v (width <= 8) for which the single-variable boolean term c holds
func truthSet(c, v *Term) (bitset, bool) {
	if e, ok := truthCache.Load(c); ok {
		te := e.(truthEntry)
		return te.set, te.ok
	}
	var b bitset
	ok := true
	env := map[*Term]uint64{}
	for i := 0; i < 1<<uint(v.sort.Width); i++ {
		env[v] = uint64(i)
		val, good := evalTerm(c, env)
		if !good {
			ok = false
			break
		}
		if val != 0 {
			b[i/64] |= 1 << uint(i%64)
		}
	}
	truthCache.Store(c, truthEntry{b, ok})
	return b, ok
}
