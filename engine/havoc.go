package main

import (
	"fmt"
	"go/types"
)

// produce a "dirty" (non-zero, otherwise arbitrary) value of type t
func (x *Exec) havocVal(t types.Type, depth int) Value {
	switch u := t.Underlying().(type) {
	case *types.Basic:
		switch {
		case u.Info()&types.IsBoolean != 0:
			b := x.freshInput("hb", 1)
			return bvcmp("=", b, BV(1, 1))
		case u.Info()&types.IsString != 0:
			b := x.freshInput("hs", 8)
			return &Str{b: []*Term{b}}
		case u.Info()&types.IsFloat != 0:
			f := x.FreshFP("hf")
			x.inputs = append(x.inputs, f)
			x.trace = append(x.trace, traceItem{t: f})
			return f
		case u.Info()&types.IsInteger != 0:
			w, _ := width(t)
			return x.freshInput("hi", w)
		}
		return zero(t)
	case *types.Struct:
		s := StructV{f: make([]Value, u.NumFields())}
		for i := range s.f {
			if depth > 0 {
				s.f[i] = x.havocVal(u.Field(i).Type(), depth-1)
			} else {
				s.f[i] = zero(u.Field(i).Type())
			}
		}
		return s
	case *types.Array:
		a := ArrayV{e: make([]Value, u.Len())}
		for i := range a.e {
			a.e[i] = x.havocVal(u.Elem(), depth-1)
		}
		return a
	case *types.Slice:
		a := &ArrayObj{e: []Obj{objOf(u.Elem(), x.havocOrZero(u.Elem(), depth-1))}}
		return SliceV{a: a, len: 1, cap: 1}
	case *types.Map:
		return &MapObj{keys: []Value{x.havocOrZero(u.Key(), depth-1)}, vals: []Value{x.havocOrZero(u.Elem(), depth-1)}}
	case *types.Pointer:
		return Ptr{o: newObj(u.Elem())}
	case *types.Interface:
		return opaqueIface
	case *types.Signature:
		return &Closure{}
	case *types.Chan:
		return Ptr{o: &Cell{v: Native{"chan"}}}
	}
	panic(fmt.Sprintf("havoc %s", t))
}

func (x *Exec) havocOrZero(t types.Type, depth int) Value {
	if depth < 0 {
		return zero(t)
	}
	return x.havocVal(t, depth)
}

// deep "same observable value" comparison; empty and nil containers are equal
func (x *Exec) sameVal(a, b Value) *Term {
	switch av := a.(type) {
	case *Term:
		bv := b.(*Term)
		if av.sort.FP {
			if av.isC && bv.isC {
				return Bool(av.c == bv.c || (av.f() != av.f() && bv.f() != bv.f()))
			}
			return mkOp("=", Sort{Bool: true}, "=", 0, av, bv) // identity: NaN = NaN, +0 != -0
		}
		if av.sort.Bool {
			return Not(Or(And(av, Not(bv)), And(Not(av), bv)))
		}
		return bvcmp("=", av, bv)
	case *OpaqueStr:
		if bo, ok := b.(*OpaqueStr); ok {
			return x.opaqueEq(av, bo)
		}
		panic(abortPath{"opaque number string compared with ordinary text", false})
	case *Str:
		return x.strEq(av, b.(*Str))
	case StructV:
		r := Bool(true)
		for i := range av.f {
			r = And(r, x.sameVal(av.f[i], b.(StructV).f[i]))
		}
		return r
	case ArrayV:
		r := Bool(true)
		for i := range av.e {
			r = And(r, x.sameVal(av.e[i], b.(ArrayV).e[i]))
		}
		return r
	case SliceV:
		bv := b.(SliceV)
		if av.len != bv.len {
			return Bool(false)
		}
		r := Bool(true)
		for i := 0; i < av.len; i++ {
			r = And(r, x.sameVal(load(av.a.e[av.off+i]), load(bv.a.e[bv.off+i])))
		}
		return r
	case *MapObj:
		bv := b.(*MapObj)
		la, lb := 0, 0
		if av != nil {
			la = len(av.keys)
		}
		if bv != nil {
			lb = len(bv.keys)
		}
		if la != lb {
			return Bool(false)
		}
		r := Bool(true)
		for i := 0; i < la; i++ { // same insertion order is enough for this use
			r = And(r, And(x.sameVal(av.keys[i], bv.keys[i]), x.sameVal(av.vals[i], bv.vals[i])))
		}
		return r
	case Ptr:
		bv := b.(Ptr)
		if (av.o == nil) != (bv.o == nil) {
			return Bool(false)
		}
		if av.o == nil {
			return Bool(true)
		}
		if _, ok := load(av.o).(Native); ok {
			return Bool(true)
		}
		return x.sameVal(load(av.o), load(bv.o))
	case Iface:
		bv := b.(Iface)
		if (av.t == nil) != (bv.t == nil) {
			return Bool(false)
		}
		return Bool(true)
	case *Closure:
		return Bool((av == nil) == (b.(*Closure) == nil))
	case Native:
		return Bool(true)
	case nil:
		return Bool(b == nil)
	}
	panic(fmt.Sprintf("sameVal %T", a))
}

// freeze marks every cell and map reachable from v as frozen (shared between paths)
func (x *Exec) freeze(v Value, seen map[interface{}]bool) {
	switch u := v.(type) {
	case Ptr:
		if u.o != nil {
			x.freezeObj(u.o, seen)
		}
	case SliceV:
		if u.a != nil {
			x.freezeObj(u.a, seen)
		}
	case StructV:
		for _, f := range u.f {
			x.freeze(f, seen)
		}
	case ArrayV:
		for _, f := range u.e {
			x.freeze(f, seen)
		}
	case Tuple:
		for _, f := range u {
			x.freeze(f, seen)
		}
	case Iface:
		x.freeze(u.v, seen)
	case *MapObj:
		if u != nil && !seen[u] {
			seen[u] = true
			u.frozen = true
			for i := range u.keys {
				x.freeze(u.keys[i], seen)
				x.freeze(u.vals[i], seen)
			}
		}
	case *Closure:
		if u != nil {
			for _, b := range u.bind {
				x.freeze(b, seen)
			}
		}
	}
}

func (x *Exec) freezeObj(o Obj, seen map[interface{}]bool) {
	if seen[o] {
		return
	}
	seen[o] = true
	switch o := o.(type) {
	case *Cell:
		if _, isNative := o.v.(Native); isNative {
			return // native handles (compiled regexps) are internally synchronised and never stored through
		}
		o.frozen = true
		o.owner = x
		x.freeze(o.v, seen)
	case *StructObj:
		for _, f := range o.f {
			x.freezeObj(f, seen)
		}
	case *ArrayObj:
		for _, f := range o.e {
			x.freezeObj(f, seen)
		}
	}
}
