package main

import (
	"encoding/json"
	"fmt"
	"os"
	"path/filepath"
	"regexp"
	"runtime/pprof"
	"sort"
	"strconv"
	"strings"
	"time"

	"golang.org/x/tools/go/packages"
	"golang.org/x/tools/go/ssa"
	"golang.org/x/tools/go/ssa/ssautil"
)

// ---------- configuration ----------

var (
	repoDir  = envOr("VERIF_REPO", "/repo")
	verifDir = envOr("VERIF_DIR", "/verif")
)

func envOr(k, d string) string {
	if v := os.Getenv(k); v != "" {
		return v
	}
	return d
}

// HarnessSpec is one entry of harness/registry.json
type HarnessSpec struct {
	Prop     string // property id
	Func     string // harness entry point (Go function name in the overlaid package)
	Pkg      string // package directory relative to the repository root ("." for package main)
	Solver   string // z3 | cvc5
	Split    int    // decision depth at which the path tree is cut into shard subtrees
	Shards   [2]int // number of shards: quick, thorough
	Timeout  [2]int // seconds per shard: quick, thorough
	Tier     string // "" = both tiers, "thorough" = thorough only
	Replay   string // "" = native vector replay; "none" = engine-only (map order etc.)
	Desc     string // what is driven and what is asserted
	Units    []string
	Outside  []string
	Stubs    []string
	MaxSteps int // SSA instruction budget per path (0 = default)
}

func loadRegistry() []HarnessSpec {
	b, err := os.ReadFile(filepath.Join(verifDir, "harness", "registry.json"))
	if err != nil {
		fatal("registry: %v", err)
	}
	var r []HarnessSpec
	if err := json.Unmarshal(b, &r); err != nil {
		fatal("registry: %v", err)
	}
	for i := range r {
		if r[i].Solver == "" {
			r[i].Solver = "z3"
		}
		if r[i].Split == 0 {
			r[i].Split = 3
		}
		for t := 0; t < 2; t++ {
			if r[i].Shards[t] == 0 {
				r[i].Shards[t] = 1
			}
			if r[i].Timeout[t] == 0 {
				r[i].Timeout[t] = []int{240, 1800}[t]
			}
		}
	}
	return r
}

func fatal(f string, a ...interface{}) {
	fmt.Fprintf(os.Stderr, "gosym: "+f+"\n", a...)
	os.Exit(2)
}

// ---------- overlays ----------

var pkgClause = regexp.MustCompile(`(?m)^package\s+(\w+)`)

// harnessDirs returns repo-relative package dir -> harness files
func harnessDirs() map[string][]string {
	out := map[string][]string{}
	root := filepath.Join(verifDir, "harness")
	filepath.Walk(root, func(p string, info os.FileInfo, err error) error {
		if err != nil || info.IsDir() || !strings.HasSuffix(p, ".go") {
			return nil
		}
		rel, _ := filepath.Rel(root, filepath.Dir(p))
		if rel == "_root" {
			rel = "."
		}
		out[rel] = append(out[rel], p)
		return nil
	})
	for _, v := range out {
		sort.Strings(v)
	}
	return out
}

// excludedHarnessFiles holds harness files (virtual paths) that do not type-check against the current tree, e.g.
// because the tree renamed or removed something they refer to: they are left out, their harnesses are reported
// as inconclusive and the other harnesses still run
var excludedHarnessFiles = map[string]bool{}

// buildOverlay returns virtual path -> content for all harness packages (withTest adds the replay test driver)
func buildOverlay(withTest bool, funcsByPkg map[string][]string) map[string][]byte {
	ov := map[string][]byte{}
	rt, err := os.ReadFile(filepath.Join(verifDir, "harness", "rt.go.tmpl"))
	if err != nil {
		fatal("%v", err)
	}
	tt, err := os.ReadFile(filepath.Join(verifDir, "harness", "replay_test.go.tmpl"))
	if err != nil {
		fatal("%v", err)
	}
	for dir, files := range harnessDirs() {
		pkgName := ""
		for _, f := range files {
			src, err := os.ReadFile(f)
			if err != nil {
				fatal("%v", err)
			}
			if pkgName == "" {
				if m := pkgClause.FindSubmatch(src); m != nil {
					pkgName = string(m[1])
				}
			}
			if strings.HasSuffix(f, "_test.go") {
				if !withTest {
					continue
				}
			}
			vp := filepath.Join(repoDir, dir, "zz_verif_"+filepath.Base(f))
			if excludedHarnessFiles[vp] {
				continue
			}
			ov[vp] = src
		}
		ov[filepath.Join(repoDir, dir, "zz_verif_rt.go")] = []byte(strings.Replace(string(rt), "PKGNAME", pkgName, 1))
		if withTest {
			var sb strings.Builder
			seenFn := map[string]bool{}
			for _, fn := range funcsByPkg[dir] {
				if seenFn[fn] {
					continue // a harness registered under two properties
				}
				seenFn[fn] = true
				fmt.Fprintf(&sb, "\t%q: %s,\n", fn, fn)
			}
			t := strings.Replace(string(tt), "PKGNAME", pkgName, 1)
			t = strings.Replace(t, "\t//HARNESSES\n", sb.String(), 1)
			ov[filepath.Join(repoDir, dir, "zz_verif_replay_test.go")] = []byte(t)
		}
	}
	return ov
}

// ---------- loading ----------

func loadProgram(pkgDirs []string) (*ssa.Program, map[string]*ssa.Package, float64) {
	t0 := time.Now()
	var pats []string
	for _, d := range pkgDirs {
		if d == "." {
			pats = append(pats, ".")
		} else {
			pats = append(pats, "./"+d)
		}
	}
	var pkgs []*packages.Package
	for attempt := 0; ; attempt++ {
		cfg := &packages.Config{Mode: packages.LoadAllSyntax, Dir: repoDir, Overlay: buildOverlay(false, nil),
			Env: append(os.Environ(), "GOFLAGS=-mod=mod", "GOPROXY=off", "GOSUMDB=off", "GOTOOLCHAIN=local")}
		var err error
		pkgs, err = packages.Load(cfg, pats...)
		if err != nil {
			fatal("load: %v", err)
		}
		bad, excludedNow := false, 0
		packages.Visit(pkgs, nil, func(p *packages.Package) {
			for _, e := range p.Errors {
				fmt.Fprintln(os.Stderr, "LOAD-ERROR", e)
				bad = true
				// an error inside a harness file (not the runtime): leave that file out and try again
				file := e.Pos
				if i := strings.Index(file, ".go:"); i >= 0 {
					file = file[:i+3]
				}
				base := filepath.Base(file)
				if strings.HasPrefix(base, "zz_verif_") && base != "zz_verif_rt.go" && base != "zz_verif_helpers.go" && !excludedHarnessFiles[file] {
					excludedHarnessFiles[file] = true
					excludedNow++
				}
			}
		})
		if !bad {
			break
		}
		if excludedNow == 0 || attempt >= 8 {
			fatal("package errors (harness does not compile against the current tree)")
		}
		fmt.Fprintf(os.Stderr, "gosym: %d harness file(s) do not compile against the current tree and are left out; loading again\n", excludedNow)
	}
	prog, spkgs := ssautil.AllPackages(pkgs, ssa.InstantiateGenerics)
	prog.Build()
	out := map[string]*ssa.Package{}
	for i, p := range pkgs {
		rel, _ := filepath.Rel(repoDir, filepath.Dir(p.GoFiles[0]))
		out[rel] = spkgs[i]
	}
	return prog, out, time.Since(t0).Seconds()
}

func activeKnown() map[string]bool {
	active := map[string]bool{}
	for _, k := range loadKnown() {
		if k.Status == "open" {
			active[k.ID] = true
		}
	}
	return active
}

// newExec creates a worker state (own solver process, own interpreted-program globals) for one harness
func newExec(prog *ssa.Program, pkg *ssa.Package, spec HarnessSpec, tier int, active map[string]bool) *Exec {
	res := newShardResult(spec.Func, 0, 1)
	res.Complete = true
	x := &Exec{prog: prog, harnessPkg: pkg, solver: NewSolver(spec.Solver), funcsSeen: map[string]bool{}, res: res,
		splitDepth: spec.Split, tier: tier, activeKnown: active, maxSteps: 4000000,
		globals: map[*ssa.Global]Obj{}, inited: map[string]bool{}, quoted: map[*Str]bool{}, parseCache: map[string]Value{}}
	if spec.MaxSteps > 0 {
		x.maxSteps = spec.MaxSteps
	}
	if s := os.Getenv("GOSYM_MAXSTEPS"); s != "" {
		x.maxSteps, _ = strconv.Atoi(s)
	}
	return x
}

// runTask explores either the frontier (item == nil) or one subtree; engine crashes are contained
func (x *Exec) runTask(fn *ssa.Function, item *workItem, deadline time.Time) (frontier []workItem) {
	t0 := time.Now()
	defer func() {
		if r := recover(); r != nil {
			x.res.Error = fmt.Sprintf("engine crashed: %v", r)
			x.res.Complete = false
		}
		x.res.WallSec += time.Since(t0).Seconds()
	}()
	x.deadline = deadline
	if item == nil {
		x.frontierMode = true
		x.frontier = nil
		x.explore(fn, nil)
		x.frontierMode = false
		return x.frontier
	}
	x.explore(fn, []workItem{*item})
	return nil
}

// ---------- known findings ----------

type KnownFinding struct {
	ID       string   `json:"id"`
	Property string   `json:"property"`
	Harness  string   `json:"harness"`
	What     string   `json:"what"`
	Witness  []uint64 `json:"witness,omitempty"`
	Status   string   `json:"status"` // "open" | "fixed"
	Fixed    string   `json:"fixed,omitempty"`
}

func loadKnown() []KnownFinding {
	b, err := os.ReadFile(filepath.Join(verifDir, "known_findings.json"))
	if err != nil {
		return nil
	}
	var k struct {
		Findings []KnownFinding `json:"findings"`
	}
	if err := json.Unmarshal(b, &k); err != nil {
		fatal("known_findings.json: %v", err)
	}
	return k.Findings
}

// ---------- shard (child process) ----------

func runShard(args []string) {
	var name string
	tier, shard, n := 0, 0, 1
	for i := 0; i < len(args); i++ {
		switch args[i] {
		case "--harness":
			i++
			name = args[i]
		case "--tier":
			i++
			if args[i] == "thorough" {
				tier = 1
			}
		case "--shard":
			i++
			fmt.Sscanf(args[i], "%d/%d", &shard, &n)
		}
	}
	var spec *HarnessSpec
	for _, h := range loadRegistry() {
		if h.Func == name {
			hh := h
			spec = &hh
		}
	}
	if spec == nil {
		fatal("no harness %q", name)
	}
	prog, pkgs, loadSec := loadProgram([]string{spec.Pkg})
	_, _ = shard, n
	x := newExec(prog, pkgs[spec.Pkg], *spec, tier, activeKnown())
	fn := pkgs[spec.Pkg].Func(spec.Func)
	x.splitDepth = 1 << 30
	x.runTask(fn, nil, time.Now().Add(time.Duration(spec.Timeout[tier])*time.Second))
	x.finish()
	x.solver.Close()
	res := x.res
	res.LoadSec = loadSec
	b, _ := json.Marshal(res)
	fmt.Printf("RESULT %s\n", b)
}

func main() {
	if len(os.Args) < 2 {
		fatal("usage: gosym check <ID> [--tier quick|thorough] | shard ... | replay <file> | list")
	}
	switch os.Args[1] {
	case "shard":
		runShard(os.Args[2:])
	case "check":
		if pf := os.Getenv("GOSYM_CPUPROFILE"); pf != "" {
			f, _ := os.Create(pf)
			pprof.StartCPUProfile(f)
			rc := runCheck(os.Args[2:])
			pprof.StopCPUProfile()
			f.Close()
			os.Exit(rc)
		}
		os.Exit(runCheck(os.Args[2:]))
	case "replay":
		os.Exit(runReplayCmd(os.Args[2:]))
	case "list":
		for _, h := range loadRegistry() {
			fmt.Printf("%s %-32s %-18s %s shards=%v split=%d %s\n", h.Prop, h.Func, h.Pkg, h.Solver, h.Shards, h.Split, h.Tier)
		}
	default:
		fatal("unknown command %s", os.Args[1])
	}
}
