package main

import (
	"fmt"
	"runtime/debug"
	"sort"
	"strings"
	"time"

	"golang.org/x/tools/go/ssa"
)

type Witness struct {
	Msg    string
	Trace  []uint64
	Inputs string
	Panic  bool
}

type ShardResult struct {
	Harness         string
	Shard, NShards  int
	Complete        bool
	Error           string
	Paths           int // paths owned by this shard and run to the end
	PathsOther      int
	Decisions       int
	FastDecisions   int // feasibility decided by exact byte-domain reasoning (no solver call)
	ModelDecisions  int // feasibility witnessed by the current model (no solver call)
	Queries         int
	SolverUnknown   int
	SolverErrors    []string
	SolverSec       float64
	WallSec         float64
	LoadSec         float64
	Asserts         int
	Discharged      int
	ViolationCount  int
	Violations      []Witness
	Known           map[string]int
	KnownWitness    map[string]Witness
	Inconclusive    map[string]int
	InconclusiveEx  map[string]string
	BenignAborts    map[string]int
	Reach           map[string]int
	Funcs           []string
	Bounds          []string
	Samples         []string
	SampleVectors   []Witness
	MaxStepsOnePath int
	boundSeen       map[string]bool
}

func (r *ShardResult) addInconclusive(why string) {
	r.Inconclusive[why]++
}

func newShardResult(h string, shard, n int) *ShardResult {
	return &ShardResult{Harness: h, Shard: shard, NShards: n, Known: map[string]int{}, KnownWitness: map[string]Witness{},
		Inconclusive: map[string]int{}, InconclusiveEx: map[string]string{}, BenignAborts: map[string]int{}, Reach: map[string]int{}}
}

// explore runs the DFS from the given initial work items (nil = the whole tree from the root)
func (x *Exec) explore(entry *ssa.Function, initial []workItem) {
	x.work = append([]workItem{}, initial...)
	if initial == nil {
		x.work = []workItem{{}}
	}
	if x.seenViol == nil {
		x.seenViol = map[string]int{}
	}
	timedOut := false
	for len(x.work) > 0 && !timedOut {
		x.prefix = x.work[len(x.work)-1].prefix
		x.model = x.work[len(x.work)-1].model
		x.work = x.work[:len(x.work)-1]
		x.dom = map[*Term]bitset{}
		x.entangled = map[*Term]bool{}
		x.pc = x.pc[:0]
		x.decision = x.decision[:0]
		x.steps = 0
		x.inputs = x.inputs[:0]
		x.trace = x.trace[:0]
		x.inputNames = x.inputNames[:0]
		x.known = x.known[:0]
		x.mapOrderNondet = false
		x.events = x.events[:0]
		x.files, x.fs, x.fileSeq, x.waitResult, x.pipeOutput, x.pipeWriteFails = nil, nil, 0, nil, nil, false
		x.rangeSite, x.rangeCount = -1, 0
		x.reBad = nil
		x.clock = 0
		x.frames = x.frames[:0]
		x.owned = true
		x.pathFlagged = false
		x.pathCompleted = false
		x.failWhere = ""
		x.nvars = 0
		func() {
			defer func() {
				if r := recover(); r != nil {
					switch r := r.(type) {
					case panicPath:
						x.report(Bool(true), "panic: "+r.msg, true)
					case goPanic:
						x.report(Bool(true), "panic: "+x.panicText(r), true)
					case abortPath:
						if r.benign {
							x.res.BenignAborts[r.why]++
						} else {
							x.res.Inconclusive[r.why]++
							if _, ok := x.res.InconclusiveEx[r.why]; !ok {
								x.res.InconclusiveEx[r.why] = x.failWhere
							}
						}
					case timeoutAbort:
						timedOut = true
					default:
						why := fmt.Sprintf("engine error: %v", r)
						if len(why) > 300 {
							why = why[:300]
						}
						x.res.Inconclusive[why]++
						if _, ok := x.res.InconclusiveEx[why]; !ok {
							st := string(debug.Stack())
							x.res.InconclusiveEx[why] = x.failWhere + "\n" + st
						}
					}
				}
			}()
			x.call(entry, nil, nil)
			x.pathCompleted = true
		}()
		// undo this path's stores into shared (frozen) objects
		for i := len(x.undo) - 1; i >= 0; i-- {
			x.undo[i].c.v = x.undo[i].old
		}
		if x.frozenWrites > 0 && !x.pathFlagged {
			x.res.Inconclusive["suspect: a store into the shared parsed Program happened on a path whose assertions all held (not observable natively; a data race under concurrent executions)"]++
		}
		x.undo, x.frozenWrites = x.undo[:0], 0
		if timedOut {
			break
		}
		// work donation: when other workers are idle, hand them the shallowest half of the local stack
		if x.hungry != nil && len(x.work) > 1 && x.hungry() {
			k := len(x.work) / 2
			x.donate(append([]workItem{}, x.work[:k]...))
			x.work = append([]workItem{}, x.work[k:]...)
		}
		if x.owned {
			x.res.Paths++
			if x.steps > x.res.MaxStepsOnePath {
				x.res.MaxStepsOnePath = x.steps
			}
			if len(x.res.Samples) < 3 && x.res.Paths%7 == 1 && !x.pathFlagged && x.pathCompleted {
				if sat, m, _ := x.solver.ask(x.pc, Bool(true), x.inputs); sat {
					x.res.Samples = append(x.res.Samples, fmt.Sprintf("path %v: %s", x.decision, x.describe(m)))
					// a completed, violation-free path: its model is replayed natively and must pass there too
					x.res.SampleVectors = append(x.res.SampleVectors, Witness{Msg: "sample", Trace: x.traceVector(m), Inputs: x.describe(m)})
				}
			}
		} else {
			x.res.PathsOther++
		}
	}
	if timedOut {
		x.res.Complete = false
		x.res.Error = fmt.Sprintf("time limit reached with %d prefixes still queued in one task", len(x.work)+1)
	}
}

// finish copies the per-worker totals into the result
func (x *Exec) finish() {
	x.res.Funcs = x.res.Funcs[:0]
	for f := range x.funcsSeen {
		x.res.Funcs = append(x.res.Funcs, f)
	}
	sort.Strings(x.res.Funcs)
	x.res.Queries = x.solver.queries
	x.res.SolverUnknown = x.solver.unknown
	x.res.SolverErrors = x.solver.errors
	x.res.SolverSec = x.solver.secs
}

func (x *Exec) where() string {
	var sb strings.Builder
	for i := len(x.frames) - 1; i >= 0 && i >= len(x.frames)-6; i-- {
		sb.WriteString(x.frames[i].fn.String())
		sb.WriteString(" <- ")
	}
	return sb.String()
}

func (x *Exec) panicText(p goPanic) string {
	defer func() { recover() }()
	switch v := p.v.(type) {
	case *Str:
		if s, ok := v.concrete(); ok {
			return s
		}
	case Iface:
		if a := x.toAny(v); a != nil {
			return fmt.Sprint(a)
		}
	}
	return "explicit panic in interpreted code"
}

var _ = time.Now
