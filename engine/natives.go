package main

import (
	"fmt"
	"go/token"
	"go/types"
	"math"
	"regexp"
	"sort"
	"strconv"
	"strings"

	"golang.org/x/tools/go/ssa"
)

func mustStr(v Value) string {
	s, ok := v.(*Str).concrete()
	if !ok {
		panic(abortPath{"native call with symbolic string", false})
	}
	return s
}

func (x *Exec) newError(msg string) Value {
	f := x.prog.ImportedPackage("errors").Func("New")
	return x.call(f, []Value{strOf(msg)}, nil)
}

// convert an engine value held in an interface to a native Go value for fmt
func (x *Exec) toAny(v Value) interface{} {
	iv, ok := v.(Iface)
	if !ok {
		return fmt.Sprintf("%v", v)
	}
	if iv.t == nil {
		return nil
	}
	// Stringer / error first
	for _, mname := range []string{"Error", "String"} {
		if m := x.prog.MethodSets.MethodSet(iv.t).Lookup(nil, mname); m != nil {
			if sig, ok := m.Type().(*types.Signature); ok && sig.Params().Len() == 0 && sig.Results().Len() == 1 {
				r := x.call(x.prog.MethodValue(m), []Value{iv.v}, nil)
				if s, ok := r.(*Str); ok {
					return mustStr(s)
				}
			}
		}
	}
	switch u := iv.v.(type) {
	case *Str:
		return mustStr(u)
	case *Term:
		if !u.isC {
			panic(abortPath{"fmt with symbolic arg", false})
		}
		if u.sort.Bool {
			return u.c != 0
		}
		if u.sort.FP {
			return u.f()
		}
		if _, signed := width(iv.t); signed {
			return sext(u.c, u.sort.Width)
		}
		return u.c
	}
	return fmt.Sprintf("<%T>", iv.v)
}

func (x *Exec) sliceVals(s SliceV) []Value {
	r := make([]Value, s.len)
	for i := range r {
		r[i] = load(s.a.e[s.off+i])
	}
	return r
}

func (x *Exec) native(name string, fn *ssa.Function, args []Value) (Value, bool) {
	if strings.HasPrefix(name, "(*regexp.Regexp).") && len(args) > 0 {
		if p, ok := args[0].(Ptr); ok && p.o == nil {
			panic(panicPath{"runtime error: invalid memory address or nil pointer dereference (method " + name + " on a nil *regexp.Regexp)"})
		}
	}
	switch name {
	case "errors.Is":
		err, _ := args[0].(Iface)
		target, _ := args[1].(Iface)
		if target.t == nil {
			return Bool(err.t == nil), true
		}
		for depth := 0; depth < 12 && err.t != nil; depth++ {
			if eq := x.binop(token.EQL, err, target, nil).(*Term); eq.isC && eq.c == 1 {
				return Bool(true), true
			}
			ms := x.prog.MethodSets.MethodSet(err.t)
			if m := ms.Lookup(nil, "Is"); m != nil {
				if sig, ok := m.Type().(*types.Signature); ok && sig.Params().Len() == 1 && sig.Results().Len() == 1 {
					r := x.call(x.prog.MethodValue(m), []Value{err.v, target}, nil).(*Term)
					if x.branch(r) {
						return Bool(true), true
					}
				}
			}
			m := ms.Lookup(nil, "Unwrap")
			if m == nil {
				break
			}
			sig, ok := m.Type().(*types.Signature)
			if !ok || sig.Params().Len() != 0 || sig.Results().Len() != 1 {
				break
			}
			next, ok := x.call(x.prog.MethodValue(m), []Value{err.v}, nil).(Iface)
			if !ok {
				break // Unwrap() []error is not modelled
			}
			err = next
		}
		return Bool(false), true
	case "strconv.ParseFloat":
		if _, ok := args[0].(*Str).concrete(); !ok {
			return x.symParseFloat(args[0].(*Str)), true
		}
		f, err := strconv.ParseFloat(mustStr(args[0]), 64)
		if err != nil {
			return Tuple{FP(f), x.newError(err.Error())}, true
		}
		return Tuple{FP(f), Iface{}}, true
	case "strconv.FormatInt":
		if t := args[0].(*Term); !t.isC {
			return &OpaqueStr{kind: "int", num: t, fmt: "base" + fmt.Sprint(args[1].(*Term).c)}, true
		}
		return strOf(strconv.FormatInt(sext(args[0].(*Term).c, 64), int(args[1].(*Term).c))), true
	case "strconv.Itoa":
		return strOf(strconv.Itoa(int(sext(args[0].(*Term).c, 64)))), true
	case "strconv.Quote":
		if c, ok := args[0].(*Str).concrete(); ok {
			return strOf(strconv.Quote(c)), true
		}
		return nil, false // symbolic text: execute the real strconv code
	case "strconv.FormatFloat":
		t := args[0].(*Term)
		if !t.isC {
			return &OpaqueStr{kind: "float", num: t, fmt: fmt.Sprintf("%c%d", byte(args[1].(*Term).c), sext(args[2].(*Term).c, 64))}, true
		}
		return strOf(strconv.FormatFloat(t.f(), byte(args[1].(*Term).c), int(sext(args[2].(*Term).c, 64)), int(args[3].(*Term).c))), true
	case "fmt.Sprintf", "fmt.Errorf":
		if fs, ok := args[0].(*Str); ok {
			if _, conc := fs.concrete(); !conc {
				// a symbolic format string: fmt never panics (it reports bad verbs in the text); the text is opaque
				if name == "fmt.Errorf" {
					return x.newError("fmt.Errorf with a symbolic format"), true
				}
				return &OpaqueStr{kind: "sprintf", fmt: "<symbolic format>", args: append([]Value{fs}, x.sliceVals(args[1].(SliceV))...)}, true
			}
		}
		format := mustStr(args[0])
		var as []interface{}
		if vals := x.sliceVals(args[1].(SliceV)); name == "fmt.Sprintf" {
			if r, ok := x.simpleSprintf(format, vals); ok {
				return r, true
			}
			// a symbolic byte operand is case split over its feasible values, then formatted natively
			s := args[1].(SliceV)
			for i := range vals {
				if iv, ok := vals[i].(Iface); ok {
					if t, ok := iv.v.(*Term); ok && !t.isC && !t.sort.FP && !t.sort.Bool && t.sort.Width == 8 {
						c := x.concretize(t, 0, 255, false)
						store(s.a.e[s.off+i], Iface{t: iv.t, v: BV(uint64(c), 8)})
					}
				}
			}
			vals = x.sliceVals(s)
			symbolic := false
			for _, v := range vals {
				if iv, ok := v.(Iface); ok {
					switch u := iv.v.(type) {
					case *Term:
						symbolic = symbolic || !u.isC
					case *Str:
						_, conc := u.concrete()
						symbolic = symbolic || !conc
					case SliceV:
						for _, b := range x.sliceBytes(u) {
							symbolic = symbolic || !b.isC
						}
					case *OpaqueStr:
						symbolic = true
					}
				}
			}
			if symbolic {
				// formatting of symbolic operands: an uninterpreted function of (format, operands)
				return &OpaqueStr{kind: "sprintf", fmt: format, args: vals}, true
			}
		}
		if name == "fmt.Errorf" {
			// an error message built from symbolic operands: keep the error, abstract the text
			for _, v := range x.sliceVals(args[1].(SliceV)) {
				if iv, ok := v.(Iface); ok {
					if t, ok := iv.v.(*Term); ok && !t.isC {
						return x.newError("fmt.Errorf(" + format + ") with symbolic operands"), true
					}
					if st, ok := iv.v.(*Str); ok {
						if _, conc := st.concrete(); !conc {
							return x.newError("fmt.Errorf(" + format + ") with symbolic operands"), true
						}
					}
				}
			}
		}
		for _, a := range x.sliceVals(args[1].(SliceV)) {
			as = append(as, x.toAny(a))
		}
		s := fmt.Sprintf(format, as...)
		if name == "fmt.Errorf" {
			return x.newError(s), true
		}
		return strOf(s), true
	case "fmt.Fprintf":
		// format as Sprintf does, then hand the bytes to the writer's Write method
		w, isIface := args[0].(Iface)
		if !isIface || w.t == nil {
			return Tuple{BV(0, 64), Iface{}}, true
		}
		if _, isNative := w.v.(Native); isNative {
			return Tuple{BV(0, 64), Iface{}}, true // an unmodelled writer (os.Stderr, ...): output discarded
		}
		if pt, ok := w.t.(*types.Pointer); ok {
			if nt, ok := pt.Elem().(*types.Named); ok && nt.Obj().Pkg() != nil && nt.Obj().Pkg().Path() == "os" && x.fileOf(w.v) == nil {
				return Tuple{BV(0, 64), Iface{}}, true // os.Stdout / os.Stderr
			}
		}
		sf := x.prog.ImportedPackage("fmt").Func("Sprintf")
		formatted, ok := x.native("fmt.Sprintf", sf, args[1:])
		if !ok {
			panic(abortPath{"Fprintf could not be formatted", false})
		}
		st, isStr := formatted.(*Str)
		if !isStr {
			panic(abortPath{"Fprintf of symbolic operands to a modelled writer (text is opaque)", false})
		}
		m := x.prog.MethodSets.MethodSet(w.t).Lookup(nil, "Write")
		if m == nil {
			panic(abortPath{"Fprintf to a writer without Write", false})
		}
		r := x.call(x.prog.MethodValue(m), []Value{w.v, x.convert(st, types.Typ[types.String], types.NewSlice(types.Typ[types.Byte]))}, nil)
		return r, true
	case "fmt.Fprintln", "fmt.Println", "fmt.Printf":
		return Tuple{BV(0, 64), Iface{}}, true
	case "regexp.QuoteMeta":
		if _, ok := args[0].(*Str).concrete(); ok {
			return strOf(regexp.QuoteMeta(mustStr(args[0]))), true
		}
		if x.inQuoteMeta {
			return nil, false
		}
		x.inQuoteMeta = true
		r := x.call(fn, args, nil) // real body on symbolic bytes
		x.inQuoteMeta = false
		x.quoted[r.(*Str)] = true
		return r, true
	case "regexp.Compile", "regexp.MustCompile":
		if pat, ok := args[0].(*Str); ok {
			if _, conc := pat.concrete(); !conc {
				// contract: error iff invalid UTF-8, or (free) syntax error unless pattern is QuoteMeta output
				// the verdict is a function of the pattern text: compiling the same text again on this path agrees
				var kb strings.Builder
				for _, b := range pat.b {
					kb.WriteString(b.s)
					kb.WriteByte(' ')
				}
				key := kb.String()
				bad, seen := x.reBad[key]
				if !seen {
					valid := x.call(x.prog.ImportedPackage("unicode/utf8").Func("ValidString"), []Value{pat}, nil).(*Term)
					bad = !x.branch(valid)
					if !bad && !x.quoted[pat] {
						se := x.FreshBV("resyntax", 1)
						bad = x.branch(bvcmp("=", se, BV(1, 1)))
					}
					if x.reBad == nil {
						x.reBad = map[string]bool{}
					}
					x.reBad[key] = bad
				}
				if name == "regexp.MustCompile" {
					if bad {
						panic(panicPath{"regexp.MustCompile panics: pattern is not a valid regexp (contract)"})
					}
					return Ptr{o: &Cell{v: Native{x.symRegexp(pat)}}}, true
				}
				if bad {
					return Tuple{Ptr{}, x.newError("error parsing regexp")}, true
				}
				return Tuple{Ptr{o: &Cell{v: Native{x.symRegexp(pat)}}}, Iface{}}, true
			}
		}
		re, err := regexp.Compile(mustStr(args[0]))
		if name == "regexp.MustCompile" {
			if err != nil {
				panic(goPanic{strOf(err.Error())})
			}
			return Ptr{o: &Cell{v: Native{re}}}, true
		}
		if err != nil {
			return Tuple{Ptr{}, x.newError(err.Error())}, true
		}
		return Tuple{Ptr{o: &Cell{v: Native{re}}}, Iface{}}, true
	case "(*regexp.Regexp).Longest":
		if re, ok := args[0].(Ptr).o.(*Cell).v.(Native).v.(*regexp.Regexp); ok {
			re.Longest()
		}
		return nil, true
	case "(*regexp.Regexp).FindIndex":
		re, isRe := args[0].(Ptr).o.(*Cell).v.(Native).v.(*regexp.Regexp)
		data := args[1].(SliceV)
		bs := x.sliceBytes(data)
		if conc, ok := (&Str{b: bs}).concrete(); ok && isRe {
			loc := re.FindIndex([]byte(conc))
			return x.intSlice(loc), true
		}
		if !isRe {
			// a quoted one-byte literal (what RS = one byte compiles to): the first occurrence of that byte
			if lit, ok := args[0].(Ptr).o.(*Cell).v.(Native).v.(*symLiteralRegexp); ok {
				for i, b := range bs {
					if x.branch(bvcmp("=", b, lit.b)) {
						return x.intSlice([]int{i, i + 1}), true
					}
				}
				return SliceV{}, true
			}
			panic(abortPath{"FindIndex on a symbolic-pattern regexp", false})
		}
		model := x.harnessPkg.Func("verifRegexFindIndex")
		if model == nil {
			panic(abortPath{"FindIndex on symbolic data without a harness model", false})
		}
		return x.call(model, []Value{strOf(rePattern(re)), data}, nil), true
	case "(*regexp.Regexp).FindAllStringIndex", "(*regexp.Regexp).FindStringIndex":
		re, isRe := args[0].(Ptr).o.(*Cell).v.(Native).v.(*regexp.Regexp)
		if !isRe {
			panic(abortPath{"regexp match on a symbolic-pattern regexp", false})
		}
		s := args[1].(*Str)
		if conc, ok := s.concrete(); ok {
			if name == "(*regexp.Regexp).FindStringIndex" {
				return x.intSlice(re.FindStringIndex(conc)), true
			}
			locs := re.FindAllStringIndex(conc, concInt(args[2]))
			if locs == nil {
				return SliceV{}, true
			}
			a := &ArrayObj{e: make([]Obj, len(locs))}
			for i := range locs {
				a.e[i] = &Cell{v: x.intSlice(locs[i])}
			}
			return SliceV{a: a, len: len(locs), cap: len(locs)}, true
		}
		if name == "(*regexp.Regexp).FindStringIndex" {
			model := x.harnessPkg.Func("verifRegexFindIndex")
			if model == nil {
				panic(abortPath{"FindStringIndex on symbolic text without a harness model", false})
			}
			return x.call(model, []Value{strOf(rePattern(re)), x.convert(s, types.Typ[types.String], types.NewSlice(types.Typ[types.Byte]))}, nil), true
		}
		model := x.harnessPkg.Func("verifRegexFindAll")
		if model == nil {
			panic(abortPath{"FindAllStringIndex on symbolic text without a harness model", false})
		}
		return x.call(model, []Value{strOf(rePattern(re)), s, args[2]}, nil), true
	case "(*regexp.Regexp).ReplaceAllStringFunc":
		// documented contract: the non-matching parts of src in order, each match replaced by repl(match)
		re, isRe := args[0].(Ptr).o.(*Cell).v.(Native).v.(*regexp.Regexp)
		src := args[1].(*Str)
		if !isRe {
			return src, true // symbolic pattern: the contract-conforming outcome "no match" (stub; listed in the evidence)
		}
		f := args[2].(*Closure)
		var locs [][2]int
		if conc, ok := src.concrete(); ok {
			for _, l := range re.FindAllStringIndex(conc, -1) {
				locs = append(locs, [2]int{l[0], l[1]})
			}
		} else {
			model := x.harnessPkg.Func("verifRegexFindAll")
			if model == nil {
				panic(abortPath{"ReplaceAllStringFunc on symbolic text without a harness model", false})
			}
			r := x.call(model, []Value{strOf(rePattern(re)), src, BV(^uint64(0), 64)}, nil).(SliceV)
			for i := 0; i < r.len; i++ {
				pr := load(r.a.e[r.off+i]).(SliceV)
				locs = append(locs, [2]int{concInt(load(pr.a.e[pr.off])), concInt(load(pr.a.e[pr.off+1]))})
			}
		}
		var out []*Term
		prev := 0
		for _, l := range locs {
			out = append(out, src.b[prev:l[0]]...)
			rep := x.call(f.fn, []Value{&Str{b: src.b[l[0]:l[1]]}}, f.bind).(*Str)
			out = append(out, rep.b...)
			prev = l[1]
		}
		out = append(out, src.b[prev:]...)
		return &Str{b: out}, true
	case "strings.Compare", "internal/bytealg.CompareString":
		a, b := args[0].(*Str), args[1].(*Str)
		lt := x.binop(token.LSS, a, b, nil).(*Term)
		eq := x.strEq(a, b)
		return Ite(lt, BV(^uint64(0), 64), Ite(eq, BV(0, 64), BV(1, 64))), true
	case "strings.Index":
		return x.indexSeq(args[0].(*Str).b, args[1].(*Str).b), true
	case "bytes.Index":
		return x.indexSeq(x.sliceBytes(args[0].(SliceV)), x.sliceBytes(args[1].(SliceV))), true
	case "(*regexp.Regexp).Split":
		re, isRe := args[0].(Ptr).o.(*Cell).v.(Native).v.(*regexp.Regexp)
		conc, ok := args[1].(*Str).concrete()
		if !isRe || !ok {
			model := x.harnessPkg.Func("verifRegexFindAll")
			if !isRe || model == nil {
				panic(abortPath{"regexp Split on symbolic text without a harness model", false})
			}
			// pieces between the matches of the model (all model patterns match at least one byte)
			src := args[1].(*Str)
			r := x.call(model, []Value{strOf(rePattern(re)), src, BV(^uint64(0), 64)}, nil).(SliceV)
			var parts []Value
			prev := 0
			for i := 0; i < r.len; i++ {
				pr := load(r.a.e[r.off+i]).(SliceV)
				a, b := concInt(load(pr.a.e[pr.off])), concInt(load(pr.a.e[pr.off+1]))
				parts = append(parts, &Str{b: src.b[prev:a]})
				prev = b
			}
			parts = append(parts, &Str{b: src.b[prev:]})
			arr := &ArrayObj{e: make([]Obj, len(parts))}
			for i := range parts {
				arr.e[i] = &Cell{v: parts[i]}
			}
			return SliceV{a: arr, len: len(parts), cap: len(parts)}, true
		}
		m := re.Split(conc, concInt(args[2]))
		a := &ArrayObj{e: make([]Obj, len(m))}
		for i := range m {
			a.e[i] = &Cell{v: strOf(m[i])}
		}
		return SliceV{a: a, len: len(m), cap: len(m)}, true
	case "(*regexp.Regexp).FindStringSubmatch":
		re, isRe := args[0].(Ptr).o.(*Cell).v.(Native).v.(*regexp.Regexp)
		conc, ok := args[1].(*Str).concrete()
		if !isRe || !ok {
			panic(abortPath{"FindStringSubmatch on symbolic text", false})
		}
		m := re.FindStringSubmatch(conc)
		if m == nil {
			return SliceV{}, true
		}
		a := &ArrayObj{e: make([]Obj, len(m))}
		for i := range m {
			a.e[i] = &Cell{v: strOf(m[i])}
		}
		return SliceV{a: a, len: len(m), cap: len(m)}, true
	case "(*regexp.Regexp).MatchString":
		re, isRe := args[0].(Ptr).o.(*Cell).v.(Native).v.(*regexp.Regexp)
		if !isRe {
			// a regexp compiled from a symbolic pattern: whether it matches is free
			return bvcmp("=", x.FreshBV("rematch", 1), BV(1, 1)), true
		}
		if conc, ok := args[1].(*Str).concrete(); ok {
			return Bool(re.MatchString(conc)), true
		}
		model := x.harnessPkg.Func("verifRegexFindIndex")
		if model == nil {
			panic(abortPath{"MatchString on symbolic text without a harness model", false})
		}
		loc := x.call(model, []Value{strOf(rePattern(re)), x.convert(args[1], types.Typ[types.String], types.NewSlice(types.Typ[types.Byte]))}, nil).(SliceV)
		return Bool(loc.a != nil), true
	case "(*regexp.Regexp).String":
		re, ok := args[0].(Ptr).o.(*Cell).v.(Native).v.(*regexp.Regexp)
		if !ok {
			panic(abortPath{"String() of a symbolic-pattern regexp", false})
		}
		return strOf(re.String()), true
	case "sort.Strings":
		s := args[0].(SliceV)
		vals := make([]string, s.len)
		for i := range vals {
			c, ok := load(s.a.e[s.off+i]).(*Str).concrete()
			if !ok {
				return nil, false // symbolic names: execute the real sort
			}
			vals[i] = c
		}
		sort.Strings(vals)
		for i := range vals {
			store(s.a.e[s.off+i], strOf(vals[i]))
		}
		return nil, true
	case "math/rand.NewSource":
		return Iface{}, true
	case "math/rand.New":
		return Ptr{o: &Cell{v: Native{"rand"}}}, true
	case "math.Trunc":
		t := args[0].(*Term)
		if t.isC {
			return FP(math.Trunc(t.f())), true
		}
		return mkOp("fp.roundToIntegral RTZ", Sort{FP: true}, "fp.trunc", 0, t), true
	case "math.Pow", "math.Mod", "math.Atan2":
		a, b := args[0].(*Term), args[1].(*Term)
		if a.isC && b.isC {
			switch name {
			case "math.Pow":
				return FP(math.Pow(a.f(), b.f())), true
			case "math.Mod":
				return FP(math.Mod(a.f(), b.f())), true
			}
			return FP(math.Atan2(a.f(), b.f())), true
		}
		uf := "uf_" + strings.ToLower(name[5:])
		return mkOp(uf, Sort{FP: true}, "uf", 0, a, b), true // uninterpreted: same arguments, same result
	case "math.Log", "math.Exp", "math.Sin", "math.Cos", "math.Sqrt":
		a := args[0].(*Term)
		if a.isC {
			switch name {
			case "math.Log":
				return FP(math.Log(a.f())), true
			case "math.Exp":
				return FP(math.Exp(a.f())), true
			case "math.Sin":
				return FP(math.Sin(a.f())), true
			case "math.Cos":
				return FP(math.Cos(a.f())), true
			}
			return FP(math.Sqrt(a.f())), true
		}
		return mkOp("uf_"+strings.ToLower(name[5:]), Sort{FP: true}, "uf", 0, a), true
	case "math.Abs":
		a := args[0].(*Term)
		if a.isC {
			return FP(math.Abs(a.f())), true
		}
		return mkOp("fp.abs", Sort{FP: true}, "fp.abs", 0, a), true
	case "math.NaN":
		return FP(math.NaN()), true
	case "math.Inf":
		return FP(math.Inf(int(sext(args[0].(*Term).c, 64)))), true
	case "math.IsNaN":
		return fpIsNaN(args[0].(*Term)), true
	case "math.IsInf":
		t := args[0].(*Term)
		if t.isC {
			return Bool(math.IsInf(t.f(), int(sext(args[1].(*Term).c, 64)))), true
		}
		sign := sext(args[1].(*Term).c, 64)
		inf := mkOp("fp.isInfinite", Sort{Bool: true}, "fp.isInfinite", 0, t)
		switch {
		case sign > 0:
			return And(inf, fpcmp("fp.gt", t, FP(0))), true
		case sign < 0:
			return And(inf, fpcmp("fp.lt", t, FP(0))), true
		}
		return inf, true
	case "math.Float64bits":
		t := args[0].(*Term)
		if t.isC {
			return BV(t.c, 64), true
		}
		panic(abortPath{"Float64bits symbolic", false})
	case "math.Float64frombits":
		t := args[0].(*Term)
		if t.isC {
			return FP(math.Float64frombits(t.c)), true
		}
		panic(abortPath{"Float64frombits symbolic", false})
	case "(*strings.Builder).copyCheck", "(*strings.Builder).Grow":
		return nil, true
	case "(*strings.Builder).String":
		buf := load(args[0].(Ptr).o.(*StructObj).f[1]).(SliceV)
		st := &Str{b: make([]*Term, buf.len)}
		for i := 0; i < buf.len; i++ {
			st.b[i] = load(buf.a.e[buf.off+i]).(*Term)
		}
		return st, true
	case "strings.Repeat":
		return strOf(strings.Repeat(mustStr(args[0]), int(args[1].(*Term).c))), true
	case "internal/bytealg.CountString":
		s, c := args[0].(*Str), args[1].(*Term)
		n := 0
		for _, b := range s.b {
			if x.branch(bvcmp("=", b, c)) {
				n++
			}
		}
		return BV(uint64(n), 64), true
	case "internal/bytealg.Count":
		bs, c := x.sliceBytes(args[0].(SliceV)), args[1].(*Term)
		n := 0
		for _, b := range bs {
			if x.branch(bvcmp("=", b, c)) {
				n++
			}
		}
		return BV(uint64(n), 64), true
	case "internal/bytealg.Equal":
		a, b := x.sliceBytes(args[0].(SliceV)), x.sliceBytes(args[1].(SliceV))
		return x.strEq(&Str{b: a}, &Str{b: b}), true
	case "internal/bytealg.IndexString":
		return x.indexSeq(args[0].(*Str).b, args[1].(*Str).b), true
	case "internal/bytealg.Index":
		return x.indexSeq(x.sliceBytes(args[0].(SliceV)), x.sliceBytes(args[1].(SliceV))), true
	case "internal/bytealg.MakeNoZero":
		n := int(args[0].(*Term).c)
		a := &ArrayObj{e: make([]Obj, n)}
		cells := make([]Cell, n)
		for i := range a.e {
			cells[i].v = zero8
			a.e[i] = &cells[i]
		}
		return SliceV{a: a, len: n, cap: n}, true
	case "internal/abi.NoEscape", "internal/bytealg.Cutover":
		if name == "internal/bytealg.Cutover" {
			return BV(1<<20, 64), true
		}
		return args[0], true
	}
	return nil, false
}

// indexSeq: first position where needle occurs in hay (-1 if none), forking per position
func (x *Exec) indexSeq(hay, needle []*Term) Value {
	n, m := len(hay), len(needle)
	if m == 0 {
		return BV(0, 64)
	}
	if m > n {
		return BV(^uint64(0), 64)
	}
	at := func(i int) *Term {
		r := Bool(true)
		for k := 0; k < m; k++ {
			r = And(r, bvcmp("=", hay[i+k], needle[k]))
		}
		return r
	}
	cnt := n - m + 1
	i := x.choose(cnt+1, func(i int) *Term {
		r := Bool(true)
		for k := 0; k < i && k < cnt; k++ {
			r = And(r, Not(at(k)))
		}
		if i < cnt {
			r = And(r, at(i))
		}
		return r
	})
	if i == cnt {
		return BV(^uint64(0), 64)
	}
	return BV(uint64(i), 64)
}

// rePattern returns the AWK-level pattern of a compiled regexp (goawk wraps patterns as "(?s:...)")
func rePattern(re *regexp.Regexp) string {
	p := re.String()
	if strings.HasPrefix(p, "(?s:") && strings.HasSuffix(p, ")") {
		return p[4 : len(p)-1]
	}
	return p
}

// intSlice builds a []int value (nil for a nil Go slice)
// symLiteralRegexp is a regexp compiled from the QuoteMeta form of one symbolic byte
type symLiteralRegexp struct{ b *Term }

// symRegexp is the native value of a regexp compiled from a symbolic pattern
func (x *Exec) symRegexp(pat *Str) interface{} {
	if x.quoted[pat] && (len(pat.b) == 1 || (len(pat.b) == 2 && pat.b[0].isC && pat.b[0].c == '\\')) {
		return &symLiteralRegexp{b: pat.b[len(pat.b)-1]}
	}
	return "symbolic-regexp"
}

func (x *Exec) intSlice(v []int) Value {
	if v == nil {
		return SliceV{}
	}
	a := &ArrayObj{e: make([]Obj, len(v))}
	for i := range v {
		a.e[i] = &Cell{v: BV(uint64(int64(v[i])), 64)}
	}
	return SliceV{a: a, len: len(v), cap: len(v)}
}

// simpleSprintf evaluates formats made only of literal text, %% and plain %s verbs over string / []byte
// operands exactly (concatenation), also when the operands are symbolic
func (x *Exec) simpleSprintf(format string, vals []Value) (Value, bool) {
	var out []*Term
	ai := 0
	for i := 0; i < len(format); i++ {
		if format[i] != '%' {
			out = append(out, BV(uint64(format[i]), 8))
			continue
		}
		i++
		if i >= len(format) {
			return nil, false
		}
		switch format[i] {
		case '%':
			out = append(out, BV('%', 8))
		case 's':
			if ai >= len(vals) {
				return nil, false
			}
			iv, ok := vals[ai].(Iface)
			ai++
			if !ok {
				return nil, false
			}
			switch u := iv.v.(type) {
			case *Str:
				out = append(out, u.b...)
			case SliceV:
				if _, isByte := iv.t.Underlying().(*types.Slice); !isByte {
					return nil, false
				}
				out = append(out, x.sliceBytes(u)...)
			default:
				return nil, false
			}
		default:
			return nil, false
		}
	}
	if ai != len(vals) {
		return nil, false
	}
	return &Str{b: out}, true
}

// OpaqueStr is the string produced by formatting a symbolic number: an uninterpreted function of
// (route, format, number).  It supports equality with another opaque string and the verifOpaque*
// intrinsics; any other inspection makes the path inconclusive (engine error on the type assertion).
type OpaqueStr struct {
	kind string // "int" | "float" | "sprintf"
	num  *Term
	fmt  string
	args []Value // sprintf operands (interfaces)
}

func (x *Exec) opaqueEq(a, b *OpaqueStr) *Term {
	if a.kind == "sprintf" && b.kind == "sprintf" {
		// equal format and pairwise equal operands (same dynamic type, same value) give the same text
		if a.fmt != b.fmt || len(a.args) != len(b.args) {
			return Bool(false)
		}
		r := Bool(true)
		for i := range a.args {
			ai, aok := a.args[i].(Iface)
			bi, bok := b.args[i].(Iface)
			if !aok || !bok || ai.t == nil || bi.t == nil {
				return Bool(false)
			}
			if !types.Identical(ai.t, bi.t) {
				// integers of different width but equal signedness and value print the same digits
				aw, as := width(ai.t)
				bw, bs := width(bi.t)
				at, aIsT := ai.v.(*Term)
				bt, bIsT := bi.v.(*Term)
				if aw > 0 && bw > 0 && as == bs && aIsT && bIsT && !at.sort.Bool && !bt.sort.Bool {
					r = And(r, bvcmp("=", Extend(at, 64, as), Extend(bt, 64, bs)))
					continue
				}
				return Bool(false)
			}
			r = And(r, x.sameVal(ai.v, bi.v))
		}
		return r
	}
	if a.kind != b.kind || a.fmt != b.fmt || a.num == nil || b.num == nil || a.num.sort != b.num.sort {
		panic(abortPath{"comparison of differently formatted opaque number strings", false})
	}
	if a.num.sort.FP {
		// same format of the same float value gives the same text; -0 vs +0 and NaN payloads may print differently or equally: stay exact
		if a.num.isC && b.num.isC {
			return Bool(a.num.c == b.num.c)
		}
		return mkOp("=", Sort{Bool: true}, "=", 0, a.num, b.num) // SMT-LIB identity on floats: NaN = NaN, +0 != -0
	}
	return bvcmp("=", a.num, b.num)
}

func boolTerm(v Value) *Term { return v.(*Term) }

// strconv.ParseFloat on a symbolic string: real special()/readFloat() decide syntax,
// digit->binary conversion is the uninterpreted function pf_val, range error a free boolean.
func (x *Exec) symParseFloat(s *Str) Value {
	pkg := x.prog.ImportedPackage("strconv")
	synErr := func() Value { return Tuple{FP(0), x.newError("strconv.ParseFloat: invalid syntax")} }
	sp := x.call(pkg.Func("special"), []Value{s}, nil).(Tuple)
	if x.branch(boolTerm(sp[2])) {
		n := x.concretize(sp[1].(*Term), 0, len(s.b), true)
		if n == len(s.b) {
			return Tuple{sp[0], Iface{}}
		}
		return synErr()
	}
	rf := x.call(pkg.Func("readFloat"), []Value{s}, nil).(Tuple)
	// mantissa uint64, exp int, neg, trunc, hex bool, i int, ok bool
	if !x.branch(boolTerm(rf[6])) {
		return synErr()
	}
	n := x.concretize(rf[5].(*Term), 0, len(s.b), true)
	if n != len(s.b) {
		return synErr()
	}
	pfArgs := []*Term{rf[0].(*Term), rf[1].(*Term), boolTerm(rf[2]), boolTerm(rf[3]), boolTerm(rf[4])}
	var val *Term = mkOp("pf_val", Sort{FP: true}, "uf", 0, pfArgs...)
	// contract of the digit->binary step: never NaN; a zero mantissa is a (signed) zero; a decimal numeral
	// without exponent and without truncated digits is the correctly rounded mantissa
	x.addPC(Not(fpIsNaN(val)))
	mant, exp10, neg, trunc, hex := pfArgs[0], pfArgs[1], pfArgs[2], pfArgs[3], pfArgs[4]
	plain := And(bvcmp("=", exp10, BV(0, 64)), And(Not(trunc), Not(hex)))
	mf := int64ToFP(mant, false)
	val = Ite(bvcmp("=", mant, BV(0, 64)), Ite(neg, FP(math.Copysign(0, -1)), FP(0)),
		Ite(plain, Ite(neg, fpneg(mf), mf), val))
	// the range error is a function of the same decomposition (same text => same verdict); overflow needs a large exponent
	rng := mkOp("pf_range", Sort{Bool: true}, "uf", 0, pfArgs...)
	rng = And(rng, bvcmp("bvsle", BV(250, 64), rf[1].(*Term)))
	if x.branch(rng) {
		return Tuple{val, x.newError("strconv.ParseFloat: value out of range")}
	}
	return Tuple{val, Iface{}}
}
