package main

// Engine-level semantics for the part of package reflect that goawk uses to call Go functions from AWK
// (interp/functions.go, internal/resolver/resolve.go).  A reflect.Type is the go/types type of the SSA
// program; a reflect.Value is the real three-field struct whose pointer fields carry the engine's own
// (type, value) pair, so Values can be stored, copied and appended by the interpreted code unchanged.
// Value.Call runs the target function symbolically like any other call.  Panics that reflect raises
// (wrong argument count or type, Int() on a non-integer, ...) are raised here as Go panics too.

import (
	"fmt"
	"go/types"
	"reflect"
	"sync"

	"golang.org/x/tools/go/ssa"
)

type rtypeModel struct{ t types.Type }
type rvBox struct {
	t types.Type
	v Value
}

var rtypeMu sync.Mutex
var rtypeList []*rtypeModel

func internRtype(t types.Type) *rtypeModel {
	rtypeMu.Lock()
	defer rtypeMu.Unlock()
	for _, m := range rtypeList {
		if types.Identical(m.t, t) {
			return m
		}
	}
	m := &rtypeModel{t}
	rtypeList = append(rtypeList, m)
	return m
}

func (x *Exec) rtypeIface(t types.Type) Value {
	if t == nil {
		return Iface{}
	}
	pt := types.NewPointer(x.prog.ImportedPackage("reflect").Type("rtype").Type())
	return Iface{t: pt, v: Native{internRtype(t)}}
}

func (x *Exec) rvalue(t types.Type, v Value) Value {
	st := x.prog.ImportedPackage("reflect").Type("Value").Type()
	s := zero(st).(StructV)
	if len(s.f) != 3 {
		panic(abortPath{"reflect.Value does not have the expected three fields", false})
	}
	s.f[0] = Native{internRtype(t)}
	s.f[1] = Native{&rvBox{t, v}}
	s.f[2] = BV(uint64(kindOfType(t)), 64)
	return s
}

func rvBoxOf(v Value) *rvBox {
	s := v.(StructV)
	if n, ok := s.f[1].(Native); ok {
		if b, ok := n.v.(*rvBox); ok {
			return b
		}
	}
	return nil
}

func kindOfType(t types.Type) reflect.Kind {
	switch u := t.Underlying().(type) {
	case *types.Basic:
		switch u.Kind() {
		case types.Bool:
			return reflect.Bool
		case types.Int:
			return reflect.Int
		case types.Int8:
			return reflect.Int8
		case types.Int16:
			return reflect.Int16
		case types.Int32:
			return reflect.Int32
		case types.Int64:
			return reflect.Int64
		case types.Uint:
			return reflect.Uint
		case types.Uint8:
			return reflect.Uint8
		case types.Uint16:
			return reflect.Uint16
		case types.Uint32:
			return reflect.Uint32
		case types.Uint64:
			return reflect.Uint64
		case types.Uintptr:
			return reflect.Uintptr
		case types.Float32:
			return reflect.Float32
		case types.Float64:
			return reflect.Float64
		case types.Complex64:
			return reflect.Complex64
		case types.Complex128:
			return reflect.Complex128
		case types.String:
			return reflect.String
		case types.UnsafePointer:
			return reflect.UnsafePointer
		}
	case *types.Array:
		return reflect.Array
	case *types.Chan:
		return reflect.Chan
	case *types.Signature:
		return reflect.Func
	case *types.Interface:
		return reflect.Interface
	case *types.Map:
		return reflect.Map
	case *types.Pointer:
		return reflect.Pointer
	case *types.Slice:
		return reflect.Slice
	case *types.Struct:
		return reflect.Struct
	}
	panic(abortPath{"reflect kind of " + t.String(), false})
}

func reflectTypeString(t types.Type) string {
	return types.TypeString(t, func(p *types.Package) string { return p.Name() })
}

// rtypeMethod implements a method of reflect.Type invoked on a modelled type
func (x *Exec) rtypeMethod(name string, args []Value) Value {
	m := args[0].(Native).v.(*rtypeModel)
	sig, _ := m.t.Underlying().(*types.Signature)
	needFunc := func() {
		if sig == nil {
			panic(panicPath{"reflect: " + name + " of non-func type " + reflectTypeString(m.t)})
		}
	}
	switch name {
	case "Kind":
		return BV(uint64(kindOfType(m.t)), 64)
	case "String":
		return strOf(reflectTypeString(m.t))
	case "Name":
		if n, ok := m.t.(*types.Named); ok {
			return strOf(n.Obj().Name())
		}
		if b, ok := m.t.(*types.Basic); ok {
			return strOf(b.Name())
		}
		return strOf("")
	case "NumIn":
		needFunc()
		return BV(uint64(sig.Params().Len()), 64)
	case "NumOut":
		needFunc()
		return BV(uint64(sig.Results().Len()), 64)
	case "IsVariadic":
		needFunc()
		return Bool(sig.Variadic())
	case "In", "Out":
		needFunc()
		tup := sig.Params()
		if name == "Out" {
			tup = sig.Results()
		}
		i := concInt(args[1])
		if i < 0 || i >= tup.Len() {
			panic(panicPath{"reflect: Func index out of bounds"})
		}
		return x.rtypeIface(tup.At(i).Type())
	case "Elem":
		switch u := m.t.Underlying().(type) {
		case *types.Slice:
			return x.rtypeIface(u.Elem())
		case *types.Array:
			return x.rtypeIface(u.Elem())
		case *types.Pointer:
			return x.rtypeIface(u.Elem())
		case *types.Map:
			return x.rtypeIface(u.Elem())
		case *types.Chan:
			return x.rtypeIface(u.Elem())
		}
		panic(panicPath{"reflect: Elem of invalid type " + reflectTypeString(m.t)})
	}
	panic(abortPath{"reflect.Type method not modelled: " + name, false})
}

func (x *Exec) reflectNative(name string, fn *ssa.Function, args []Value) (Value, bool) {
	switch name {
	case "reflect.TypeOf":
		return x.rtypeIface(args[0].(Iface).t), true
	case "reflect.ValueOf":
		i := args[0].(Iface)
		if i.t == nil {
			return zero(fn.Signature.Results().At(0).Type()), true
		}
		return x.rvalue(i.t, i.v), true
	case "reflect.Zero":
		i := args[0].(Iface)
		if i.t == nil {
			panic(panicPath{"reflect: Zero(nil)"})
		}
		t := i.v.(Native).v.(*rtypeModel).t
		return x.rvalue(t, zero(t)), true
	case "(reflect.Kind).String":
		k := args[0].(*Term)
		if k.isC {
			return strOf(reflect.Kind(k.c).String()), true
		}
		return nil, false
	}
	const pre = "(reflect.Value)."
	if len(name) <= len(pre) || name[:len(pre)] != pre {
		return nil, false
	}
	meth := name[len(pre):]
	b := rvBoxOf(args[0])
	if b == nil {
		switch meth {
		case "Kind":
			return BV(0, 64), true
		case "IsValid":
			return Bool(false), true
		}
		panic(panicPath{"reflect: call of reflect.Value." + meth + " on zero Value"})
	}
	k := kindOfType(b.t)
	bad := func() { panic(panicPath{"reflect: call of reflect.Value." + meth + " on " + k.String() + " Value"}) }
	switch meth {
	case "Kind":
		return BV(uint64(k), 64), true
	case "IsValid":
		return Bool(true), true
	case "Type":
		return x.rtypeIface(b.t), true
	case "Interface":
		if k == reflect.Interface {
			return b.v.(Iface), true
		}
		return Iface{t: b.t, v: b.v}, true
	case "IsNil":
		switch v := b.v.(type) {
		case Iface:
			return Bool(v.t == nil), true
		case Ptr:
			return Bool(v.o == nil), true
		case SliceV:
			return Bool(v.a == nil), true
		case *Closure:
			return Bool(v == nil), true
		case *MapObj:
			return Bool(v == nil), true
		}
		bad()
	case "Bool":
		if k != reflect.Bool {
			bad()
		}
		return b.v, true
	case "Int":
		if k < reflect.Int || k > reflect.Int64 {
			bad()
		}
		return Extend(b.v.(*Term), 64, true), true
	case "Uint":
		if k < reflect.Uint || k > reflect.Uintptr {
			bad()
		}
		return Extend(b.v.(*Term), 64, false), true
	case "Float":
		if k != reflect.Float32 && k != reflect.Float64 {
			bad()
		}
		return b.v, true
	case "String":
		if k == reflect.String {
			return b.v, true
		}
		return strOf("<" + reflectTypeString(b.t) + " Value>"), true
	case "Bytes":
		if s, ok := b.v.(SliceV); ok && k == reflect.Slice {
			return s, true
		}
		bad()
	case "Len":
		switch v := b.v.(type) {
		case SliceV:
			return BV(uint64(v.len), 64), true
		case *Str:
			return BV(uint64(len(v.b)), 64), true
		}
		bad()
	case "Call":
		return x.reflectCall(b, args[1].(SliceV)), true
	}
	panic(abortPath{"reflect.Value method not modelled: " + meth, false})
}

// reflectCall is Value.Call: checks the argument list the way reflect does, packs a variadic tail, runs the function
func (x *Exec) reflectCall(b *rvBox, in SliceV) Value {
	sig, ok := b.t.Underlying().(*types.Signature)
	if !ok {
		panic(panicPath{"reflect: call of reflect.Value.Call on " + kindOfType(b.t).String() + " Value"})
	}
	cl, _ := b.v.(*Closure)
	if cl == nil {
		panic(panicPath{"reflect: call of nil function"})
	}
	n := sig.Params().Len()
	if sig.Variadic() {
		if in.len < n-1 {
			panic(panicPath{"reflect: Call with too few input arguments"})
		}
	} else if in.len != n {
		if in.len < n {
			panic(panicPath{"reflect: Call with too few input arguments"})
		}
		panic(panicPath{"reflect: Call with too many input arguments"})
	}
	arg := func(i int, want types.Type) Value {
		ab := rvBoxOf(load(in.a.e[in.off+i]))
		if ab == nil {
			panic(panicPath{"reflect: Call using zero Value argument"})
		}
		if !types.AssignableTo(ab.t, want) {
			panic(panicPath{"reflect: Call using " + reflectTypeString(ab.t) + " as type " + reflectTypeString(want)})
		}
		if _, isI := want.Underlying().(*types.Interface); isI {
			if _, already := ab.t.Underlying().(*types.Interface); !already {
				return Iface{t: ab.t, v: ab.v}
			}
		}
		return ab.v
	}
	var args []Value
	fixed := n
	if sig.Variadic() {
		fixed = n - 1
	}
	for i := 0; i < fixed; i++ {
		args = append(args, arg(i, sig.Params().At(i).Type()))
	}
	if sig.Variadic() {
		et := sig.Params().At(n - 1).Type().Underlying().(*types.Slice).Elem()
		m := in.len - fixed
		if m == 0 {
			args = append(args, SliceV{})
		} else {
			a := &ArrayObj{e: make([]Obj, m)}
			for j := 0; j < m; j++ {
				a.e[j] = objOf(et, arg(fixed+j, et))
			}
			args = append(args, SliceV{a: a, len: m, cap: m})
		}
	}
	r := x.call(cl.fn, args, cl.bind)
	res := sig.Results()
	vt := x.prog.ImportedPackage("reflect").Type("Value").Type()
	out := &ArrayObj{e: make([]Obj, res.Len())}
	for i := 0; i < res.Len(); i++ {
		var rv Value
		if res.Len() == 1 {
			rv = r
		} else {
			rv = r.(Tuple)[i]
		}
		out.e[i] = objOf(vt, x.rvalue(res.At(i).Type(), rv))
	}
	if res.Len() == 0 {
		return SliceV{}
	}
	return SliceV{a: out, len: res.Len(), cap: res.Len()}
}

var _ = fmt.Sprintf
