package main

import (
	"crypto/sha1"
	"encoding/json"
	"fmt"
	"os"
	"os/exec"
	"path/filepath"
	"strings"
)

type ReplayJob struct {
	ID      string
	Harness string
	Values  []uint64
}

// ReplayFile is what a VIOLATION line points to
type ReplayFile struct {
	Property string   `json:"property"`
	Harness  string   `json:"harness"`
	Pkg      string   `json:"pkg"`
	Message  string   `json:"message"`
	Panic    bool     `json:"panic"`
	Inputs   string   `json:"inputs"`
	Values   []uint64 `json:"values"`
	Native   string   `json:"native_result"`
	How      string   `json:"how_to_replay"`
}

// harnessPresent reports whether a registered harness function exists in the loaded program (nil = all do)
var harnessPresent func(pkg, fn string) bool

// nativeReplay runs the jobs of one package natively (go test -overlay against the real tree) and
// returns job id -> (status, failure messages)
func nativeReplay(pkgDir string, jobs []ReplayJob, reg []HarnessSpec) (map[string]string, map[string][]string, string) {
	status := map[string]string{}
	fails := map[string][]string{}
	if len(jobs) == 0 {
		return status, fails, ""
	}
	dir, err := os.MkdirTemp("", "gosym-replay-")
	if err != nil {
		return status, fails, err.Error()
	}
	defer os.RemoveAll(dir)
	funcs := map[string][]string{}
	for _, h := range reg {
		if harnessPresent != nil && !harnessPresent(h.Pkg, h.Func) {
			continue // its file was left out: it does not compile against the current tree
		}
		funcs[h.Pkg] = append(funcs[h.Pkg], h.Func)
	}
	ov := buildOverlay(true, funcs)
	repl := map[string]string{}
	i := 0
	for virt, content := range ov {
		real := filepath.Join(dir, fmt.Sprintf("f%d.go", i))
		i++
		os.WriteFile(real, content, 0644)
		repl[virt] = real
	}
	ob, _ := json.Marshal(map[string]interface{}{"Replace": repl})
	ovf := filepath.Join(dir, "overlay.json")
	os.WriteFile(ovf, ob, 0644)
	jb, _ := json.Marshal(jobs)
	jf := filepath.Join(dir, "jobs.json")
	os.WriteFile(jf, jb, 0644)
	pat := "./" + pkgDir
	if pkgDir == "." {
		pat = "."
	}
	cmd := exec.Command("go", "test", "-vet=off", "-count=1", "-timeout", "300s", "-overlay", ovf, "-run", "^TestVerifReplay$", "-v", pat)
	cmd.Dir = repoDir
	cmd.Env = append(os.Environ(), "VERIF_JOBS="+jf, "GOFLAGS=-mod=mod", "GOPROXY=off", "GOSUMDB=off", "GOTOOLCHAIN=local")
	out, _ := cmd.CombinedOutput()
	o := string(out)
	for _, line := range strings.Split(o, "\n") {
		line = strings.TrimSpace(line)
		if strings.HasPrefix(line, "REPLAY-RESULT ") {
			f := strings.Fields(line)
			if len(f) >= 3 {
				status[f[1]] = f[2]
			}
		} else if strings.HasPrefix(line, "REPLAY-FAIL ") {
			rest := strings.TrimPrefix(line, "REPLAY-FAIL ")
			sp := strings.SplitN(rest, " ", 2)
			if len(sp) == 2 {
				fails[sp[0]] = append(fails[sp[0]], sp[1])
			}
		} else if strings.HasPrefix(line, "REPLAY-PANIC ") {
			rest := strings.TrimPrefix(line, "REPLAY-PANIC ")
			sp := strings.SplitN(rest, " ", 2)
			if len(sp) == 2 {
				fails[sp[0]] = append(fails[sp[0]], "panic: "+sp[1])
			}
		}
	}
	return status, fails, o
}

// reproduced decides whether the native run confirms the engine's witness
func reproduced(w Witness, status string, fails []string) bool {
	// any assertion failure or Go panic of the harness on the concrete vector is a real failure of the real
	// code; the native run may stop at a different assertion of the same harness than the engine's path did
	return status == "PANIC" || status == "FAIL"
}

func writeReplayFile(prop string, spec HarnessSpec, w Witness, native string) string {
	h := sha1.Sum([]byte(fmt.Sprint(w.Msg, w.Trace)))
	dir := filepath.Join(verifDir, "replays", prop)
	os.MkdirAll(dir, 0755)
	p := filepath.Join(dir, fmt.Sprintf("%s-%x.json", spec.Func, h[:5]))
	rf := ReplayFile{Property: prop, Harness: spec.Func, Pkg: spec.Pkg, Message: w.Msg, Panic: w.Panic, Inputs: w.Inputs, Values: w.Trace,
		Native: native, How: "bin/gosym replay " + p}
	b, _ := json.MarshalIndent(rf, "", " ")
	os.WriteFile(p, b, 0644)
	return p
}

func runReplayCmd(args []string) int {
	if len(args) < 1 {
		fatal("usage: gosym replay <file>")
	}
	b, err := os.ReadFile(args[0])
	if err != nil {
		fatal("%v", err)
	}
	var rf ReplayFile
	if err := json.Unmarshal(b, &rf); err != nil {
		fatal("%v", err)
	}
	reg := loadRegistry()
	st, fails, out := nativeReplay(rf.Pkg, []ReplayJob{{ID: "r", Harness: rf.Harness, Values: rf.Values}}, reg)
	fmt.Printf("harness %s (%s) vector %v\n", rf.Harness, rf.Pkg, rf.Values)
	fmt.Printf("expected failure: %s\n", rf.Message)
	fmt.Printf("native result: %s %v\n", st["r"], fails["r"])
	if reproduced(Witness{Msg: rf.Message, Panic: rf.Panic}, st["r"], fails["r"]) {
		fmt.Println("REPRODUCED")
		return 1
	}
	if st["r"] == "" {
		fmt.Println(out)
		return 2
	}
	fmt.Println("NOT REPRODUCED")
	return 0
}
