package main

import (
	"fmt"
	"go/types"
	"strconv"
	"strings"

	"golang.org/x/tools/go/ssa"
)

// ---------- intrinsics ----------

func (x *Exec) sliceBytes(s SliceV) []*Term {
	r := make([]*Term, s.len)
	for i := range r {
		r[i] = load(s.a.e[s.off+i]).(*Term)
	}
	return r
}

func (x *Exec) indexByte(bs []*Term, c *Term) Value {
	// fork per position: first i with bs[i]==c, or -1
	n := len(bs)
	i := x.choose(n+1, func(i int) *Term {
		r := Bool(true)
		for k := 0; k < i && k < n; k++ {
			r = And(r, Not(bvcmp("=", bs[k], c)))
		}
		if i < n {
			r = And(r, bvcmp("=", bs[i], c))
		}
		return r
	})
	if i == n {
		return BV(^uint64(0), 64)
	}
	return BV(uint64(i), 64)
}

func (x *Exec) freshInput(name string, w int) *Term {
	t := x.FreshBV(name, w)
	x.inputs = append(x.inputs, t)
	x.trace = append(x.trace, traceItem{t: t})
	return t
}

func (x *Exec) freshBytes(n int) []*Term {
	r := make([]*Term, n)
	for i := range r {
		r[i] = x.freshInput("b", 8)
	}
	return r
}

func concInt(v Value) int { return int(sext(v.(*Term).c, 64)) }

func (x *Exec) intrinsic(name string, fn *ssa.Function, args []Value) (Value, bool) {
	if r, ok := x.native(name, fn, args); ok {
		return r, true
	}
	if r, ok := x.ioNative(name, fn, args); ok {
		return r, true
	}
	if r, ok := x.reflectNative(name, fn, args); ok {
		return r, true
	}
	switch name {
	case "internal/bytealg.IndexByte":
		return x.indexByte(x.sliceBytes(args[0].(SliceV)), args[1].(*Term)), true
	case "internal/bytealg.IndexByteString":
		return x.indexByte(args[0].(*Str).b, args[1].(*Term)), true
	}
	dot := strings.LastIndex(name, ".verif")
	if dot < 0 {
		return nil, false
	}
	if r, ok := x.ioIntrinsic(name[dot+1:], fn, args); ok {
		return r, true
	}
	switch name[dot+1:] {
	case "verifParse":
		// parse once per worker, share the (frozen) Program between paths
		src := mustStr(args[0])
		if x.inCachedParse {
			return nil, false
		}
		if v, ok := x.parseCache[src]; ok {
			return v, true
		}
		x.inCachedParse = true
		savedPC, savedDec, savedPre, savedWork := x.pc, x.decision, x.prefix, x.work
		v := x.call(fn, args, nil)
		x.inCachedParse = false
		if len(x.decision) != len(savedDec) {
			panic("verifParse made symbolic decisions")
		}
		x.pc, x.decision, x.prefix, x.work = savedPC, savedDec, savedPre, savedWork
		x.freeze(v, map[interface{}]bool{})
		x.parseCache[src] = v
		return v, true
	case "verifByte":
		return x.freshInput("b", 8), true
	case "verifRune":
		return x.freshInput("r", 32), true
	case "verifInt64", "verifInt":
		return x.freshInput("i", 64), true
	case "verifBool":
		t := x.freshInput("f", 1)
		return bvcmp("=", t, BV(1, 1)), true
	case "verifFloat64":
		t := x.FreshFP("x")
		x.inputs = append(x.inputs, t)
		x.trace = append(x.trace, traceItem{t: t})
		return t, true
	case "verifIntRange":
		lo, hi := concInt(args[0]), concInt(args[1])
		if hi < lo {
			panic(abortPath{"empty range", true})
		}
		i := x.choose(hi-lo+1, func(int) *Term { return Bool(true) })
		x.inputNames = append(x.inputNames, fmt.Sprintf("%d", lo+i))
		x.trace = append(x.trace, traceItem{conc: uint64(int64(lo + i))})
		return BV(uint64(int64(lo+i)), 64), true
	case "verifBound":
		v := concInt(args[x.tier])
		x.trace = append(x.trace, traceItem{conc: uint64(int64(v))})
		key := fmt.Sprintf("%s#%d", x.frames[len(x.frames)-1].fn.Name(), len(x.res.Bounds))
		if x.res.boundSeen == nil {
			x.res.boundSeen = map[string]bool{}
		}
		k2 := fmt.Sprintf("%s(%d,%d)", x.frames[len(x.frames)-1].fn.Name(), concInt(args[0]), concInt(args[1]))
		if !x.res.boundSeen[k2] {
			x.res.boundSeen[k2] = true
			x.res.Bounds = append(x.res.Bounds, fmt.Sprintf("%s -> %d", k2, v))
		}
		_ = key
		return BV(uint64(int64(v)), 64), true
	case "verifBytes":
		n := concInt(args[0])
		bs := x.freshBytes(n)
		a := &ArrayObj{e: make([]Obj, n)}
		for i := range a.e {
			a.e[i] = &Cell{v: bs[i]}
		}
		return SliceV{a: a, len: n, cap: n}, true
	case "verifString":
		return &Str{b: x.freshBytes(concInt(args[0]))}, true
	case "verifAssume":
		c := args[0].(*Term)
		if c.isC {
			if c.c == 0 {
				panic(abortPath{"assume false", true})
			}
			return nil, true
		}
		if ok, m := x.feas(c); !ok {
			panic(abortPath{"assume infeasible", true})
		} else if m != nil {
			x.model = m
		}
		x.addPC(c)
		return nil, true
	case "verifReach":
		x.res.Reach[mustStr(args[0])]++
		return nil, true
	case "verifKnown":
		id := mustStr(args[0])
		if x.activeKnown[id] {
			x.known = append(x.known, knownPred{id, args[1].(*Term)})
		}
		return nil, true
	case "verifAssert":
		x.assert(args[0].(*Term), mustStr(args[1]))
		return nil, true
	case "verifOpaqueKind":
		switch s := args[0].(type) {
		case *OpaqueStr:
			if s.kind == "int" {
				return BV(1, 64), true
			}
			return BV(2, 64), true
		case *Str:
			c, ok := s.concrete()
			if !ok {
				panic(abortPath{"verifOpaqueKind of symbolic text", false})
			}
			if _, err := strconv.ParseInt(c, 10, 64); err == nil {
				return BV(1, 64), true
			}
			if _, err := strconv.ParseFloat(c, 64); err == nil {
				return BV(2, 64), true
			}
			return BV(0, 64), true
		}
		panic("verifOpaqueKind")
	case "verifOpaqueInt":
		switch s := args[0].(type) {
		case *OpaqueStr:
			return s.num, true
		case *Str:
			c, _ := s.concrete()
			v, _ := strconv.ParseInt(c, 10, 64)
			return BV(uint64(v), 64), true
		}
		panic("verifOpaqueInt")
	case "verifEventCount":
		want := mustStr(args[0])
		n := 0
		for _, e := range x.events {
			if e == want {
				n++
			}
		}
		return BV(uint64(n), 64), true
	case "verifNumFields":
		st := args[0].(Ptr).o.(*StructObj)
		return BV(uint64(len(st.f)), 64), true
	case "verifFieldName":
		pt := fn.Signature.Params().At(0).Type().(*types.Pointer).Elem().Underlying().(*types.Struct)
		return strOf(pt.Field(int(args[1].(*Term).c)).Name()), true
	case "verifHavocField":
		st := args[0].(Ptr).o.(*StructObj)
		i := int(args[1].(*Term).c)
		pt := fn.Signature.Params().At(0).Type().(*types.Pointer).Elem().Underlying().(*types.Struct)
		store(st.f[i], x.havocVal(pt.Field(i).Type(), 1))
		return nil, true
	case "verifFieldSame":
		a := args[0].(Ptr).o.(*StructObj)
		b := args[1].(Ptr).o.(*StructObj)
		i := int(args[2].(*Term).c)
		return x.sameVal(load(a.f[i]), load(b.f[i])), true
	case "verifMapOrderNondet":
		x.mapOrderNondet = args[0].(*Term).c != 0
		return nil, true
	case "verifMapOrderSite":
		x.rangeSite = int(sext(args[0].(*Term).c, 64))
		x.rangeCount = 0
		return nil, true
	case "verifInEngine":
		return Bool(true), true
	case "verifSnapshot":
		// "" while the shared (frozen) objects hold their original values, "modified" otherwise
		for _, u := range x.undo {
			if same := x.sameVal(u.c.v, u.old); !(same.isC && same.c == 1) {
				return strOf("modified"), true
			}
		}
		return strOf(""), true
	case "verifNativeRepeat":
		return BV(1, 64), true
	case "verifRangeCount":
		return BV(uint64(x.rangeCount), 64), true
	}
	return nil, false
}

// traceVector turns the intrinsic call trace into the native replay vector under model m
func (x *Exec) traceVector(m map[string]uint64) []uint64 {
	vals := make([]uint64, len(x.trace))
	for i, it := range x.trace {
		if it.t != nil {
			vals[i] = m[it.t.s]
		} else {
			vals[i] = it.conc
		}
	}
	return vals
}

func (x *Exec) describe(m map[string]uint64) string {
	var sb strings.Builder
	fmt.Fprintf(&sb, "sizes=%v", x.inputNames)
	for _, in := range x.inputs {
		fmt.Fprintf(&sb, " %s=%#x", in.s, m[in.s])
	}
	return sb.String()
}

// knownDisj returns the disjunction of the known-finding predicates declared on this path
func (x *Exec) knownDisj() *Term {
	d := Bool(false)
	for _, k := range x.known {
		d = Or(d, k.pred)
	}
	return d
}

// report a feasible violation: cond is the violating condition (already known sat under pc with model m)
func (x *Exec) report(cond *Term, msg string, isPanic bool) {
	x.pathFlagged = true
	// is the violation also possible outside every listed known finding?
	kd := x.knownDisj()
	if !(kd.isC && kd.c == 0) {
		sat, m2, unk := x.solver.ask(x.pc, And(cond, Not(kd)), x.inputs)
		if unk {
			x.res.addInconclusive("solver unknown on known-finding split: " + msg)
		}
		if !sat {
			// every violating input here lies inside a listed known finding: find which
			for _, k := range x.known {
				s, mk, _ := x.solver.ask(x.pc, And(cond, k.pred), x.inputs)
				if s {
					x.res.Known[k.id]++
					if _, have := x.res.KnownWitness[k.id]; !have {
						x.res.KnownWitness[k.id] = Witness{Msg: msg, Trace: x.traceVector(mk), Inputs: x.describe(mk), Panic: isPanic}
					}
				}
			}
			return
		}
		x.recordViolation(msg, m2, isPanic)
		return
	}
	sat, m, unk := x.solver.ask(x.pc, cond, x.inputs)
	if unk || !sat {
		// the verdict that led here could not be repeated with a model: no witness, no claim
		x.res.addInconclusive("solver unknown while extracting a counterexample: " + msg)
		return
	}
	x.recordViolation(msg, m, isPanic)
}

func (x *Exec) recordViolation(msg string, m map[string]uint64, isPanic bool) {
	x.res.ViolationCount++
	x.seenViol[msg]++
	if x.seenViol[msg] <= 3 {
		x.res.Violations = append(x.res.Violations, Witness{Msg: msg, Trace: x.traceVector(m), Inputs: x.describe(m), Panic: isPanic})
	}
}

func (x *Exec) assert(c *Term, msg string) {
	x.res.Asserts++
	if c.isC {
		if c.c != 0 {
			x.res.Discharged++ // decided by the path condition alone (the path itself was proved feasible by the solver)
			return
		}
		// concretely false on this path: the path condition is feasible by construction
		x.report(Bool(true), msg, false)
		panic(abortPath{"assert always fails here", true})
	}
	bad, _, unk := x.solver.ask(x.pc, Not(c), nil)
	if unk {
		x.res.addInconclusive("solver unknown on assertion: " + msg)
		return
	}
	if !bad {
		x.res.Discharged++
		return
	}
	x.report(Not(c), msg, false)
	// continue on the side where the assertion holds
	if ok, m := x.feas(c); !ok {
		panic(abortPath{"assert always fails here", true})
	} else if m != nil {
		x.model = m
	}
	x.addPC(c)
}
