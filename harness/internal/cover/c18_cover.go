package cover

import (
	"bytes"
	"github.com/benhoyt/goawk/lexer"
	"os"
	"strings"

	"github.com/benhoyt/goawk/internal/ast"
	"github.com/benhoyt/goawk/internal/compiler"
	"github.com/benhoyt/goawk/internal/parseutil"
	"github.com/benhoyt/goawk/internal/resolver"
	"github.com/benhoyt/goawk/interp"
	"github.com/benhoyt/goawk/parser"
)

// C18 — coverage instrumentation: every statement is counted in exactly one block, blocks lie
// inside the source, instrumentation is transparent, and counts equal hand-placed counters.

var verifStmtKinds = []string{
	"x++",
	"if (a) { K }",
	"if (a) { K } else { K }",
	"while (a) { K }",
	"for (;;) { K }",
	"for (k in arr) { K }",
	"do { K } while (a)",
	"{ K }",
	"next",
	"print",
	"if (a) x++",
}

// build a statement list from case-split kinds, nested to the given depth
var verifSimpleStmt = ""

func verifBuildStmts(n, depth int, kinds []int) (src string, count int) {
	for i := 0; i < n; i++ {
		ki := kinds[verifIntRange(0, len(kinds)-1)]
		k := verifStmtKinds[ki]
		if ki == 8 {
			// the simple statements that end a block or carry their own keyword positions
			if verifSimpleStmt == "" {
				// chosen once per run, at the first place the list generator picks this kind
				verifSimpleStmt = []string{"next", "nextfile", "exit 1", "delete arr[1]"}[verifIntRange(0, 3)]
			}
			k = verifSimpleStmt
		}
		count++
		if ki == 10 {
			count++ // "if (a) x++" holds two statements
		}
		for strings.Contains(k, "K") {
			inner, c := "y++", 1
			if depth > 0 {
				// nested lists use a representative sub-alphabet (simple, if, while, block, next)
				inner, c = verifBuildStmts(verifIntRange(0, verifBound(1, 2)), depth-1, []int{0, 1, 3, 7, 8})
			}
			k = strings.Replace(k, "K", inner, 1)
			count += c
		}
		src += k + "\n"
	}
	return src, count
}

type verifWalk struct {
	cov      *Cover
	ok       bool
	original int
	seen     map[int]bool
	posBad   bool
}

func verifPosLE(a, b lexer.Position) bool {
	return a.Line < b.Line || (a.Line == b.Line && a.Column <= b.Column)
}
func verifPosLT(a, b lexer.Position) bool {
	return a.Line < b.Line || (a.Line == b.Line && a.Column < b.Column)
}

func (w *verifWalk) isCounter(s ast.Stmt) (int, bool) {
	es, ok := s.(*ast.ExprStmt)
	if !ok {
		return 0, false
	}
	var target ast.Expr
	switch e := es.Expr.(type) {
	case *ast.IncrExpr:
		target = e.Expr
	case *ast.AssignExpr:
		target = e.Left
	}
	ix, ok := target.(*ast.IndexExpr)
	if !ok || ix.Array != ArrayName {
		return 0, false
	}
	return int(ix.Index[0].(*ast.NumExpr).Value), true
}

func verifIsControl(s ast.Stmt) bool {
	switch s.(type) {
	case *ast.IfStmt, *ast.ForStmt, *ast.ForInStmt, *ast.WhileStmt, *ast.DoWhileStmt, *ast.BlockStmt:
		return true
	}
	return false
}

// check one annotated statement list: counter first, a new counter after every control-flow statement,
// each counter's block holds exactly the statements up to the next counter
func (w *verifWalk) list(ss ast.Stmts) {
	i := 0
	for i < len(ss) {
		k, isC := w.isCounter(ss[i])
		if !isC || k < 1 || k > len(w.cov.trackedBlocks) || w.seen[k] {
			w.ok = false
			return
		}
		w.seen[k] = true
		i++
		n := 0
		for i < len(ss) {
			if _, c := w.isCounter(ss[i]); c {
				break
			}
			n++
			w.original++
			s := ss[i]
			i++
			// the statement lies inside its block's reported range and is not empty
			if b := w.cov.trackedBlocks[k-1]; !verifPosLE(b.start, s.StartPos()) || !verifPosLE(s.StartPos(), b.end) || !verifPosLT(s.StartPos(), s.EndPos()) ||
				(!verifIsControl(s) && !verifPosLE(s.EndPos(), b.end)) {
				w.posBad = true
			}
			w.nested(s)
			if verifIsControl(s) {
				break // a block never spans a control-flow statement boundary
			}
		}
		if n == 0 || w.cov.trackedBlocks[k-1].numStmts != n {
			w.ok = false
		}
	}
}

func (w *verifWalk) nested(s ast.Stmt) {
	switch s := s.(type) {
	case *ast.IfStmt:
		w.list(s.Body)
		w.list(s.Else)
	case *ast.ForStmt:
		w.list(s.Body)
	case *ast.ForInStmt:
		w.list(s.Body)
	case *ast.WhileStmt:
		w.list(s.Body)
	case *ast.DoWhileStmt:
		w.list(s.Body)
	case *ast.BlockStmt:
		w.list(s.Body)
	}
}

func verifAnnotate(src string, mode Mode) (*parser.Program, *Cover, *parseutil.FileReader, error) {
	fr := &parseutil.FileReader{}
	if err := fr.AddFile("prog.awk", strings.NewReader(src)); err != nil {
		return nil, nil, nil, err
	}
	prog, err := parser.ParseProgram(fr.Source(), nil)
	if err != nil {
		return nil, nil, nil, err
	}
	cov := New(mode, false, fr)
	cov.Annotate(&prog.ResolvedProgram.Program)
	prog.ResolvedProgram = *resolver.Resolve(&prog.ResolvedProgram.Program, &resolver.Config{})
	prog.Compiled, err = compiler.Compile(&prog.ResolvedProgram)
	return prog, cov, fr, err
}

func VerifC18Partition() {
	verifSimpleStmt = ""
	body, count := verifBuildStmts(verifIntRange(1, verifBound(2, 2)), verifBound(1, 1), []int{0, 1, 2, 3, 4, 5, 6, 7, 8, 9, 10}) // three statements or nesting depth 2 did not finish within the thorough time limit
	src := "{\n" + body + "}\n"
	prog, cov, _, err := verifAnnotate(src, []Mode{ModeSet, ModeCount}[verifIntRange(0, 1)])
	verifAssert(err == nil, "an annotated program failed to parse, resolve or compile")
	if err != nil {
		return
	}
	w := &verifWalk{cov: cov, ok: true, seen: map[int]bool{}}
	w.list(prog.Actions[0].Stmts)
	verifReach("walked")
	verifAssert(w.ok, "a statement list is not partitioned into counted blocks (counter first, block ends at every control-flow statement, recorded size equals the statements in the block)")
	total := 0
	nlines := strings.Count(src, "\n")
	posOK := true
	for _, b := range cov.trackedBlocks {
		total += b.numStmts
		posOK = posOK && b.path == "prog.awk" && b.start.Line >= 1 && b.end.Line <= nlines &&
			(b.start.Line < b.end.Line || (b.start.Line == b.end.Line && b.start.Column < b.end.Column))
	}
	verifAssert(len(w.seen) == len(cov.trackedBlocks) && total == count && w.original == count, "the counted blocks do not cover every statement of the program exactly once")
	verifAssert(posOK, "a reported block does not lie inside the named source file with its start before its end")
	verifAssert(!w.posBad, "a statement does not lie inside the source range reported for its block (every statement starts inside the range, has a non-empty extent, and a block ends no earlier than its last simple statement)")
}

// transparency and exact counts on template programs with symbolic input
func VerifC18Counts() {
	templates := []string{
		"$0 == \"a\"\n$0 == \"b\" { }\n$0 == \"c\" {\nC[4]++; print \"c\"\n}\nEND { }\n",
		"{\nC[2]++; if ($0 == \"a\") {\nC[3]++; n++\n}\nC[5]++; m++\n}\nEND {\nC[8]++; print n, m\n}\n",
		"{\nC[2]++; while (i < 2) {\nC[3]++; i++; if ($0 == \"b\") {\nC[4]++; break\n}\nC[6]++; j++\n}\nC[8]++; i = 0\n}\nEND {\nC[11]++; print j; exit 3\n}\n",
		"function f(x) {\nC[2]++; if (x == \"a\") {\nC[3]++; return 1\n}\nC[5]++; return 0\n}\n{\nC[8]++; s += f($0); if ($0 == \"c\") {\nC[9]++; next\n}\nC[11]++; t++\n}\nEND {\nC[14]++; print s, t\n}\n",
	}
	src := templates[verifIntRange(0, len(templates)-1)]
	nrec := verifIntRange(0, 2)
	var input []byte
	for i := 0; i < nrec; i++ {
		b := verifByte()
		verifAssume(b == 'a' || b == 'b' || b == 'c')
		input = append(input, b, '\n')
	}
	mode := []Mode{ModeSet, ModeCount}[verifIntRange(0, 1)]
	plain, err := parser.ParseProgram([]byte(src), nil)
	verifAssert(err == nil, "template does not parse")
	covered, cov, _, err2 := verifAnnotate(src, mode)
	verifAssert(err2 == nil, "annotated template does not compile")
	run := func(p *parser.Program) (string, int, map[string]interface{}, map[string]interface{}) {
		var out bytes.Buffer
		in, err := interp.New(p)
		verifAssert(err == nil, "interp.New failed")
		st, err := in.Execute(&interp.Config{Stdin: bytes.NewReader(input), Output: &out, Error: &bytes.Buffer{}, Environ: []string{}})
		verifAssert(err == nil, "run failed")
		return out.String(), st, in.Array("C"), in.Array(ArrayName)
	}
	o1, s1, _, _ := run(plain)
	o2, s2, user, cover := run(covered)
	verifReach("ran-both")
	verifAssert(o1 == o2 && s1 == s2, "coverage instrumentation changed the program's output or exit status")
	ok := true
	for i, b := range cov.trackedBlocks {
		want, _ := user[verifItoa(b.start.Line)].(float64)
		got, _ := cover[verifItoa(i+1)].(float64)
		if mode == ModeCount {
			ok = ok && got == want
		} else {
			ok = ok && (got == 1) == (want != 0) && (got == 0 || got == 1)
		}
	}
	verifAssert(ok, "a block's count differs from the number of times its first statement began executing (set mode: 1 iff non-zero)")
}

func verifItoa(i int) string {
	if i >= 10 {
		return verifItoa(i/10) + string([]byte{byte('0' + i%10)})
	}
	return string([]byte{byte('0' + i)})
}

// the profile file: written fresh (mode line first) unless appending to an existing profile; an existing
// longer profile leaves nothing behind when it is overwritten
func VerifC18Profile() {
	mode := []Mode{ModeSet, ModeCount}[verifIntRange(0, 1)]
	appendMode := verifIntRange(0, 1) == 1
	existing := verifIntRange(0, 2) // 0: no file, 1: a short earlier profile, 2: a longer earlier profile
	_, cov, _, err := verifAnnotate("{\nx++; if (a) {\ny++\n}\n}\n", mode)
	verifAssert(err == nil, "annotate failed")
	cov.append = appendMode
	path := "gosym-profile.out"
	os.Remove(path)
	old := ""
	switch existing {
	case 1:
		old = "mode: " + mode.String() + "\nold.awk:1.1,1.2 1 1\n"
	case 2:
		old = "mode: " + mode.String() + "\n"
		for i := 0; i < 12; i++ {
			old += "old.awk:1.1,1.2 1 1\n"
		}
	}
	if existing != 0 {
		verifAssert(os.WriteFile(path, []byte(old), 0644) == nil, "could not create the earlier profile")
	}
	c1, c2 := []int{0, 1, 2, 999999, 1000000, 1234567, 2147483648}[verifIntRange(0, 6)], verifIntRange(0, 1)
	data := map[string]interface{}{"1": float64(c1), "2": float64(c2)}
	verifAssert(cov.WriteProfile(path, data) == nil, "WriteProfile failed")
	got, rerr := os.ReadFile(path)
	verifAssert(rerr == nil, "the profile was not written")
	lines := ""
	for i, b := range cov.trackedBlocks {
		cnt := []int{c1, c2}[i]
		lines += toAbsolutePath(b.path) + ":" + verifItoa(b.start.Line) + "." + verifItoa(b.start.Column) + "," + verifItoa(b.end.Line) + "." + verifItoa(b.end.Column) + " " + verifItoa(b.numStmts) + " " + verifItoa(cnt) + "\n"
	}
	want := "mode: " + mode.String() + "\n" + lines
	if existing != 0 && appendMode {
		want = old + lines
	}
	os.Remove(path)
	verifReach("profile-written")
	verifAssert(string(got) == want, "the coverage profile is not exactly the mode line plus one line per block (appended to an existing profile only with append on; nothing of an overwritten profile may survive)")
}
