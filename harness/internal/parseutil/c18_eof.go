package parseutil

import "io"

var verifEOF = io.EOF
