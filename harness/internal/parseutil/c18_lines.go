package parseutil

// C18 — global-to-file line mapping: for up to 3 files with arbitrary line counts, FileLine(g)
// names file i and local line m with 1 <= m <= lines(i) and g = 1 + sum of earlier files + (m-1)
// exactly when 1 <= g <= total, and ("", 0) otherwise.  Pure integer reasoning.

func VerifC18Lines() {
	nf := verifIntRange(0, 3)
	names := []string{"a", "b", "c"}
	fr := &FileReader{}
	var counts []int
	for i := 0; i < nf; i++ {
		l := verifInt()
		verifAssume(l >= 0 && l < 1<<31) // a file added after a newline-terminated one may be empty (zero lines)
		fr.files = append(fr.files, file{path: names[i], lines: l})
		counts = append(counts, l)
	}
	g := verifInt()
	verifAssume(g > -(1<<40) && g < 1<<40)
	path, m := fr.FileLine(g)
	total := 0
	for _, c := range counts {
		total += c
	}
	verifReach("mapped")
	if g < 1 || g > total {
		verifAssert(path == "" && m == 0, "a line outside the concatenated source must map to no file")
		return
	}
	start := 1
	ok := false
	for i, c := range counts {
		if path == names[i] {
			ok = m >= 1 && m <= c && g == start+(m-1)
		}
		start += c
	}
	verifAssert(ok, "FileLine does not return the file containing the global line and the line's number inside that file")
}

// AddFile counts lines so that every file has at least one line and the source is newline-terminated
func VerifC18AddFile() {
	n := verifIntRange(0, verifBound(3, 4))
	content := verifBytes(n)
	fr := &FileReader{}
	err := fr.AddFile("a", &verifReader{data: content})
	verifAssert(err == nil, "AddFile failed")
	src := fr.Source()
	nl := 0
	for _, b := range src {
		if b == '\n' {
			nl++
		}
	}
	verifAssert(len(src) > 0 && src[len(src)-1] == '\n', "the concatenated source does not end with a newline")
	verifAssert(len(fr.files) == 1 && fr.files[0].lines == nl && nl >= 1, "the recorded line count is not the number of newlines (at least one)")
}

type verifReader struct {
	data []byte
	pos  int
}

func (r *verifReader) Read(p []byte) (int, error) {
	if r.pos >= len(r.data) {
		return 0, verifEOF
	}
	n := copy(p, r.data[r.pos:])
	r.pos += n
	return n, nil
}

// the same through the public API: up to three files with 0-2 lines each (an empty file after a
// newline-terminated one has zero lines), every global line
func VerifC18FileLineAPI() {
	nf := verifIntRange(1, 3)
	names := []string{"a", "b", "c"}
	fr := &FileReader{}
	var counts []int
	for i := 0; i < nf; i++ {
		content := []string{"", "x", "x\n", "x\ny", "x\ny\n"}[verifIntRange(0, 4)]
		before := len(fr.Source())
		verifAssert(fr.AddFile(names[i], &verifReader{data: []byte(content)}) == nil, "AddFile failed")
		n := 0
		for _, b := range fr.Source()[before:] {
			if b == '\n' {
				n++
			}
		}
		counts = append(counts, n)
	}
	total := 0
	for _, c := range counts {
		total += c
	}
	g := verifIntRange(0, total+1)
	path, m := fr.FileLine(g)
	if g < 1 || g > total {
		verifAssert(path == "" && m == 0, "a line outside the concatenated source must map to no file")
		return
	}
	start := 1
	for i, c := range counts {
		if g >= start && g < start+c {
			verifAssert(path == names[i] && m == g-start+1, "FileLine does not return the file that contains the line (files without lines own no line)")
		}
		start += c
	}
}
