package parseutil

// C18 — global-to-file line mapping: for up to 3 files with arbitrary line counts, FileLine(g)
// names file i and local line m with 1 <= m <= lines(i) and g = 1 + sum of earlier files + (m-1)
// exactly when 1 <= g <= total, and ("", 0) otherwise.  Pure integer reasoning.

func VerifC18Lines() {
	nf := verifIntRange(0, 3)
	names := []string{"a", "b", "c"}
	fr := &FileReader{}
	var counts []int
	for i := 0; i < nf; i++ {
		l := verifInt()
		verifAssume(l >= 1 && l < 1<<31) // AddFile guarantees at least one line per file
		fr.files = append(fr.files, file{names[i], l})
		counts = append(counts, l)
	}
	g := verifInt()
	verifAssume(g > -(1<<40) && g < 1<<40)
	path, m := fr.FileLine(g)
	total := 0
	for _, c := range counts {
		total += c
	}
	verifReach("mapped")
	if g < 1 || g > total {
		verifAssert(path == "" && m == 0, "a line outside the concatenated source must map to no file")
		return
	}
	start := 1
	ok := false
	for i, c := range counts {
		if path == names[i] {
			ok = m >= 1 && m <= c && g == start+(m-1)
		}
		start += c
	}
	verifAssert(ok, "FileLine does not return the file containing the global line and the line's number inside that file")
}

// AddFile counts lines so that every file has at least one line and the source is newline-terminated
func VerifC18AddFile() {
	n := verifIntRange(0, verifBound(3, 4))
	content := verifBytes(n)
	fr := &FileReader{}
	err := fr.AddFile("a", &verifReader{data: content})
	verifAssert(err == nil, "AddFile failed")
	src := fr.Source()
	nl := 0
	for _, b := range src {
		if b == '\n' {
			nl++
		}
	}
	verifAssert(len(src) > 0 && src[len(src)-1] == '\n', "the concatenated source does not end with a newline")
	verifAssert(len(fr.files) == 1 && fr.files[0].lines == nl && nl >= 1, "the recorded line count is not the number of newlines (at least one)")
}

type verifReader struct {
	data []byte
	pos  int
}

func (r *verifReader) Read(p []byte) (int, error) {
	if r.pos >= len(r.data) {
		return 0, verifEOF
	}
	n := copy(p, r.data[r.pos:])
	r.pos += n
	return n, nil
}
