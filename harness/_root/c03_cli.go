package main

import (
	"bytes"

	"github.com/benhoyt/goawk/lexer"

	"github.com/benhoyt/goawk/parser"
)

// C03 — whole-pipeline totality on arbitrary bytes, as the command line tool uses it: the source
// gets the trailing newline FileReader.AddFile guarantees, ParseProgram returns a program or a
// *ParseError (never an escaping panic), and the real showSourceLine can display the error
// position (its slicing is executed on the reported line and column).

func VerifC03ParseBytes() {
	n := verifIntRange(0, verifBound(2, 3))
	src := append(verifBytes(n), '\n')
	prog, err := parser.ParseProgram(src, nil)
	if err == nil {
		verifAssert(prog != nil, "ParseProgram returned neither a program nor an error")
		return
	}
	verifReach("rejected")
	pe, ok := err.(*parser.ParseError)
	verifAssert(ok, "ParseProgram returned an error that is not a *ParseError")
	if !ok {
		return
	}
	lines := bytes.Split(src, []byte{'\n'})
	verifKnown("C03-unread-across-newline", pe.Position.Line > len(lines) || pe.Position.Line < 1)
	verifAssert(pe.Position.Line >= 1 && pe.Position.Line <= len(lines), "the error's line does not exist in the source")
	if pe.Position.Line < 1 || pe.Position.Line > len(lines) {
		return
	}
	verifAssert(pe.Position.Column >= 1 && pe.Position.Column-1 <= len(lines[pe.Position.Line-1]), "the error's column does not exist on the reported line")
	showSourceLine(src, pe.Position) // must not panic
}

// the classic shapes around a dangling exponent at a line end, with a symbolic tail
func VerifC03DanglingExponent() {
	prefixes := []string{"BEGIN { x = 1e", "BEGIN { x = 1e+", "BEGIN { x = 1E-", "{ print 2e", "BEGIN { x = \"a", "BEGIN { x = /re", "BEGIN { x = 1 \\"}
	p := prefixes[verifIntRange(0, len(prefixes)-1)]
	tail := verifBytes(verifIntRange(0, 2))
	src := append(append([]byte(p), tail...), '\n')
	_, err := parser.ParseProgram(src, nil)
	if err == nil {
		return
	}
	pe, ok := err.(*parser.ParseError)
	verifAssert(ok, "ParseProgram returned an error that is not a *ParseError")
	if !ok {
		return
	}
	lines := bytes.Split(src, []byte{'\n'})
	good := pe.Position.Line >= 1 && pe.Position.Line <= len(lines) && pe.Position.Column >= 1 && pe.Position.Column-1 <= len(lines[pe.Position.Line-1])
	verifKnown("C03-unread-across-newline", !good)
	verifAssert(good, "the error position of a program cut off inside a number, string or regex does not exist in the source")
	if good {
		showSourceLine(src, pe.Position)
	}
}

// the CLI's error display on long lines: every (line, column) that exists in the source can be shown
func VerifC03ShowLongLine() {
	n := []int{0, 1, 199, 200, 201, 203, 260, 1000}[verifIntRange(0, 7)]
	line := make([]byte, n)
	for i := range line {
		line[i] = 'x'
	}
	if n > 2 {
		line[1] = '\t'
		line[n-1] = 0xC3 // a truncated multi-byte character at the end
	}
	src := append(append([]byte("BEGIN {\n"), line...), '\n')
	// columns: the first few, around the 200-byte mark, and the last few (case split)
	cols := []int{1, 2, 3, 199, 200, 201, 202, 203, 204, n - 1, n, n + 1}
	col := cols[verifIntRange(0, len(cols)-1)]
	if col < 1 || col > n+1 {
		return
	}
	showSourceLine(src, lexerPosition(2, col)) // must not panic
	verifAssert(true, "shown")
	verifReach("shown")
}

func lexerPosition(line, col int) lexer.Position { return lexer.Position{Line: line, Column: col} }
