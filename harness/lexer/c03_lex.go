package lexer

// C03 — every position the lexer reports is the true line and column of the
// token's first byte (columns count bytes, a carriage return counting zero),
// exists in the source, and the lexer never panics, for every byte string.

// verifOffsetOf maps (line, col) to a byte offset under the independent rule of the
// property: lines are separated by '\n'; a column counts bytes other than '\r'.
// Returns -1 if the position does not exist in src (offset len(src) = end of input exists).
func verifOffsetOf(src []byte, line, col int) int {
	if line < 1 || col < 1 {
		return -1
	}
	l := 1
	o := 0
	for l < line {
		if o >= len(src) {
			return -1
		}
		if src[o] == '\n' {
			l++
		}
		o++
	}
	c := 1
	for {
		for o < len(src) && src[o] == '\r' {
			o++
		}
		if c == col {
			return o
		}
		if o >= len(src) || src[o] == '\n' {
			return -1
		}
		o++
		c++
	}
}

func verifHasPrefixAt(src []byte, o int, want string) bool {
	return o+len(want) <= len(src) && string(src[o:o+len(want)]) == want
}

// verifTokenAt checks that the bytes at offset o really are the start of a token of kind tok
func verifTokenAt(src []byte, o int, tok Token, val string) bool {
	if o >= len(src) {
		return false
	}
	b := src[o]
	switch {
	case tok == NEWLINE:
		return b == '\n'
	case tok == NAME:
		return isNameStart(b) && verifHasPrefixAt(src, o, val)
	case tok == NUMBER:
		return (isDigit(b) || b == '.') && verifHasPrefixAt(src, o, val)
	case tok == STRING:
		return b == '"' || b == '\''
	case tok == REGEX:
		return b == '/'
	case tok == POW:
		return b == '^' || verifHasPrefixAt(src, o, "**")
	case tok == POW_ASSIGN:
		return verifHasPrefixAt(src, o, "^=") || verifHasPrefixAt(src, o, "**=")
	case tok > CONCAT && tok < NAME:
		// operators, keywords and builtin function names: the token's own spelling is at o
		return verifHasPrefixAt(src, o, tok.String())
	}
	return false
}

func verifLexAll(src []byte, regexChoices bool) {
	n := len(src)
	l := NewLexer(src)
	prev := -1
	last := ILLEGAL
	for i := 0; i <= n+1; i++ {
		var pos Position
		var tok Token
		var val string
		if regexChoices && (last == DIV || last == DIV_ASSIGN) && verifBool() {
			pos, tok, val = l.ScanRegex() // the parser's only calling context
		} else {
			pos, tok, val = l.Scan()
		}
		last = tok
		o := verifOffsetOf(src, pos.Line, pos.Column)
		verifAssert(o >= 0, "reported position (line, column) does not exist in the source")
		if o < 0 {
			return
		}
		if tok == ILLEGAL {
			verifReach("illegal")
			return
		}
		if tok == EOF {
			verifReach("eof")
			verifAssert(o == n || src[o] == 0, "EOF reported at a position that is neither the end of the source nor a NUL byte")
			return
		}
		// a REGEX token re-reads the DIV (or DIV_ASSIGN) token the parser has just seen: same start position
		verifAssert(o > prev || (tok == REGEX && o == prev), "token positions are not strictly increasing")
		verifAssert(verifTokenAt(src, o, tok, val), "the byte at the reported position is not the first byte of the reported token")
		prev = o
	}
	verifAssert(false, "lexer produced more tokens than bytes")
}

func VerifC03LexPositions() {
	n := verifIntRange(0, verifBound(3, 4))
	verifLexAll(verifBytes(n), true)
}

// longer sources over the 12 bytes the number/continuation/string code distinguishes
func VerifC03LexAlphabet() {
	n := verifIntRange(0, verifBound(4, 5)) // six bytes (3 million sources) did not finish within the thorough time limit
	src := verifBytes(n)
	for _, b := range src {
		verifAssume(b == '1' || b == 'e' || b == '+' || b == '-' || b == '.' || b == '\r' || b == '\n' || b == ' ' || b == '\\' || b == '"' || b == '/' || b == 'a')
	}
	verifLexAll(src, false)
}

// Unescape never panics and a successful result has no more bytes than the input
func VerifC03Unescape() {
	n := verifIntRange(0, verifBound(4, 5))
	s := verifString(n)
	out, err := Unescape(s)
	if err == nil {
		verifAssert(len(out) <= len(s), "Unescape produced more bytes than it consumed")
	}
}
