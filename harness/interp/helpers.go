package interp

import (
	"fmt"
	"unicode/utf8"

	"github.com/benhoyt/goawk/parser"
)

// verifParse parses a harness template program with the real parser/resolver/compiler.
// The engine runs this body once per worker and shares the resulting (frozen) Program
// between paths; a store into it is reported as a violation of Program immutability.
var verifParsed = map[string]*parser.Program{}

func init() {
	verifResetHooks = append(verifResetHooks, func() { verifParsed = map[string]*parser.Program{} })
}

func verifParse(src string) *parser.Program {
	if p, ok := verifParsed[src]; ok {
		return p // natively, too, one Program per source text is shared by all executions of a harness
	}
	prog, err := parser.ParseProgram([]byte(src), nil)
	if err != nil {
		panic("harness program does not parse: " + err.Error())
	}
	verifParsed[src] = prog
	return prog
}

// ---- engine-side models of the regexp package on symbolic text (native replay uses the real package) ----
//
// Supported patterns: an optional ^ followed by atoms, an atom being a literal (non-meta) byte
// optionally followed by + or *; adjacent atoms use different bytes, so the greedy match is the
// leftmost-longest one.  Anything else panics (no model).

type verifAtom struct {
	c    byte
	plus bool
	star bool
}

func verifRegexAtoms(pattern string) (atoms []verifAtom, anchored bool, ok bool) {
	i := 0
	if len(pattern) > 0 && pattern[0] == '^' {
		anchored = true
		i = 1
	}
	for i < len(pattern) {
		c := pattern[i]
		switch c {
		case '.', '*', '?', '(', ')', '[', ']', '{', '}', '|', '\\', '$', '^', '+':
			return nil, false, false
		}
		a := verifAtom{c: c}
		i++
		if i < len(pattern) && pattern[i] == '+' {
			a.plus = true
			i++
		} else if i < len(pattern) && pattern[i] == '*' {
			a.star = true
			i++
		}
		if len(atoms) > 0 && atoms[len(atoms)-1].c == c {
			return nil, false, false
		}
		atoms = append(atoms, a)
	}
	return atoms, anchored, len(atoms) > 0
}

// verifRegexMatchAt returns the end of the match starting exactly at i, or -1
func verifRegexMatchAt(atoms []verifAtom, s []byte, i int) int {
	for _, a := range atoms {
		if a.star {
			for i < len(s) && s[i] == a.c {
				i++
			}
			continue
		}
		if i >= len(s) || s[i] != a.c {
			return -1
		}
		i++
		if a.plus {
			for i < len(s) && s[i] == a.c {
				i++
			}
		}
	}
	return i
}

func verifRegexFindFrom(pattern string, s []byte, from int) []int {
	// top-level alternation of atom sequences: leftmost start wins, then the longest alternative
	var alts [][]verifAtom
	anchoredAll := true
	start := 0
	for i := 0; i <= len(pattern); i++ {
		if i == len(pattern) || pattern[i] == '|' {
			atoms, anchored, ok := verifRegexAtoms(pattern[start:i])
			if !ok {
				panic("regexp model: no model for pattern " + pattern)
			}
			alts = append(alts, atoms)
			anchoredAll = anchoredAll && anchored
			if anchored && len(alts) > 1 {
				panic("regexp model: no model for pattern " + pattern)
			}
			start = i + 1
		}
	}
	if len(alts) > 1 && anchoredAll {
		panic("regexp model: no model for pattern " + pattern)
	}
	for i := from; i <= len(s); i++ {
		if anchoredAll && i > 0 {
			break
		}
		best := -1
		for _, atoms := range alts {
			if e := verifRegexMatchAt(atoms, s, i); e > best {
				best = e
			}
		}
		if best >= 0 {
			return []int{i, best}
		}
	}
	return nil
}

// model of (*regexp.Regexp).FindIndex / FindStringIndex
func verifRegexFindIndex(pattern string, data []byte) []int {
	return verifRegexFindFrom(pattern, data, 0)
}

// model of (*regexp.Regexp).FindAllStringIndex(s, -1), which is also the set of matches ReplaceAllStringFunc
// replaces: an empty match directly after the previous match is not a match, and after an empty match the search
// moves on by one character
func verifRegexFindAll(pattern, s string, n int) [][]int {
	var out [][]int
	from, prevEnd := 0, -1
	for from <= len(s) {
		loc := verifRegexFindFrom(pattern, []byte(s), from)
		if loc == nil {
			break
		}
		if loc[1] == loc[0] {
			if loc[0] != prevEnd {
				out = append(out, loc)
			}
			if loc[0] >= len(s) {
				break
			}
			_, w := utf8.DecodeRuneInString(s[loc[0]:])
			from = loc[0] + w
		} else {
			out = append(out, loc)
			from = loc[1]
		}
		prevEnd = loc[1]
	}
	return out
}

// verifSnapshot renders a value deeply (native replay only): used to notice natively that a shared
// object was modified.  In the engine the write barrier on frozen objects reports the store itself,
// so the snapshot is the constant "".
func verifSnapshot(v interface{}) string { return fmt.Sprintf("%+v", v) }
