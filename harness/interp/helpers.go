package interp

import "github.com/benhoyt/goawk/parser"

// verifParse parses a harness template program with the real parser/resolver/compiler.
// The engine runs this body once per worker and shares the resulting (frozen) Program
// between paths; a store into it is reported as a violation of Program immutability.
func verifParse(src string) *parser.Program {
	prog, err := parser.ParseProgram([]byte(src), nil)
	if err != nil {
		panic("harness program does not parse: " + err.Error())
	}
	return prog
}
