package interp

import (
	"bytes"
	"math"
	"strings"
)

// C01, continued — compilation of builtin calls (which opcode, operand order, optional arguments), the power and
// modulo operators, array membership / multi-dimensional subscripts / delete, and the match operators, each run
// through the real parser, resolver, compiler and VM on symbolic operands and compared with a straight-line
// reference written from the AWK definitions.

func verifSmallInt(lo, hi int) float64 { return float64(verifIntRange(lo, hi)) }

func VerifC01PowMod() {
	a, b := verifFloat64(), verifFloat64()
	if verifIntRange(0, 1) == 1 {
		// fixed operands beyond the integer ranges (pow and fmod are uninterpreted for symbolic operands, exact for these)
		a = []float64{1180591620717411303424, 1e30, -9223372036854775808, 9223372036854775808, 1e18 + 2, -7, 7.5, math.Inf(1)}[verifIntRange(0, 7)]
		b = []float64{3, 7, 1099511627776, -3, 2.5, 1e30}[verifIntRange(0, 5)]
	}
	env := verifEnv{vars: map[string]value{"a": num(a), "b": num(b)}}
	exprs := []string{"a ^ b", "a % b", "a ** b", "2 ^ a ^ b", "-a ^ b", "a ^ -b", "r = a; r ^= b", "r = a; r %= b", "!a ^ b", "a * b ^ 2", "a ^ 2 * b"}
	ei := verifIntRange(0, len(exprs)-1)
	src := "BEGIN { r = " + exprs[ei] + " }"
	if strings.HasPrefix(exprs[ei], "r = ") {
		src = "BEGIN { " + exprs[ei] + " }"
	}
	p, err := verifExecEnv(src, env)
	var want float64
	switch ei {
	case 0, 2, 6:
		want = math.Pow(a, b)
	case 1, 7:
		if b == 0 {
			verifAssert(err != nil, "modulo by zero did not fail")
			return
		}
		want = math.Mod(a, b)
	case 3:
		want = math.Pow(2, math.Pow(a, b)) // right associative
	case 4:
		want = -math.Pow(a, b) // unary minus binds looser than ^
	case 5:
		want = math.Pow(a, -b)
	case 8:
		want = 0 // ! binds looser than ^ : !(a^b)
		if math.Pow(a, b) == 0 {
			want = 1
		}
	case 9:
		want = a * math.Pow(b, 2)
	case 10:
		want = math.Pow(a, 2) * b
	}
	verifAssert(err == nil, "power / modulo expression failed")
	r := verifGlobal(p, "r")
	verifAssert(r.typ == typeNum && (r.n == want || (r.n != r.n && want != want)), "^ / % (or their assignment forms) compute something other than pow / fmod of the operands in source order with AWK grouping")
}

// builtin calls through the compiler: opcode selection by argument count and operand order
func VerifC01BuiltinCalls() {
	progs := []string{
		`BEGIN { r = substr(s, m) }`,                           // 0
		`BEGIN { r = substr(s, m, n) }`,                        // 1
		`BEGIN { r = index(s, t) }`,                            // 2
		`BEGIN { r = length(s) }`,                              // 3
		`BEGIN { r = length }`,                                 // 4  length of $0
		`BEGIN { r = length() }`,                               // 5
		`BEGIN { r = tolower(s) toupper(t) }`,                  // 6
		`BEGIN { r = atan2(y, x) }`,                            // 7
		`BEGIN { r = int(x) }`,                                 // 8
		`BEGIN { r = split(s, arr, "q"); r2 = arr[1] }`,        // 9
		`BEGIN { arr["k"]; arr["l"]; r = length(arr) }`,        // 10
		`BEGIN { r = sprintf("%s|%s", s, t) }`,                 // 11
		`BEGIN { r = substr(s, m + 1, n - 1) }`,                // 12 expressions as arguments
		`BEGIN { r = index(t, s) }`,                            // 13 swapped
		`BEGIN { u = s; r = sub("q", "Z", u); r2 = u }`,        // 14 explicit target
		`BEGIN { r = sub("o", "0"); r2 = $0 }`,                 // 15 default target $0
		`BEGIN { u = s; r = gsub("q", "Z", u); r2 = u }`,       // 16
		`BEGIN { r = match(s, "q"); r2 = RSTART ":" RLENGTH }`, // 17
		`BEGIN { r = sqrt(x) }`,                                // 18
		`BEGIN { r = exp(y) + log(1) }`,                        // 19
	}
	i := verifIntRange(0, len(progs)-1)
	// only the operands the chosen program reads are symbolic
	uses := func(name string) bool {
		return strings.Contains(progs[i], name+",") || strings.Contains(progs[i], name+")") || strings.Contains(progs[i], name+" ") || strings.Contains(progs[i], name+";")
	}
	s, t, m, n, x, y := "q", "", 1.0, 1.0, 0.5, 1.0
	if uses("s") {
		s = verifString(verifIntRange(0, verifBound(2, 3)))
	}
	if uses("t") {
		t = verifString(verifIntRange(0, 1))
	}
	if uses("m") {
		m = verifSmallInt(-1, 4)
	}
	if uses("n") {
		n = verifSmallInt(-1, 4)
	}
	if uses("x") {
		x = verifFloat64()
	}
	if uses("y") {
		y = verifSmallInt(-2, 2)
	}
	env := verifEnv{vars: map[string]value{"s": str(s), "t": str(t), "m": num(m), "n": num(n), "x": num(x), "y": num(y)}, rec: "rec ord"}
	p, err := verifExecEnv(progs[i], env)
	verifAssert(err == nil, "a builtin call failed")
	if err != nil {
		return
	}
	r, r2 := verifGlobal(p, "r"), verifGlobal(p, "r2")
	const msg = "a builtin call compiled to the wrong operation or with its operands in the wrong order"
	switch i {
	case 0:
		verifAssert(r.s == verifRefSubstr(s, false, m, false, 0), msg)
	case 1:
		verifAssert(r.s == verifRefSubstr(s, false, m, true, n), msg)
	case 2:
		verifAssert(r.n == float64(strings.Index(s, t)+1), msg)
	case 3:
		verifAssert(r.n == float64(len(s)), msg)
	case 4, 5:
		verifAssert(r.n == 7, msg)
	case 6:
		verifAssert(r.s == strings.ToLower(s)+strings.ToUpper(t), msg)
	case 7:
		want := math.Atan2(y, x)
		verifAssert(r.n == want || (r.n != r.n && want != want), msg)
	case 8:
		if x == x && x-x == 0 && x < 9.2e18 && x > -9.2e18 {
			verifAssert(r.n == math.Trunc(x), msg)
		}
	case 9:
		pieces := strings.Split(s, "q")
		if s == "" {
			verifAssert(r.n == 0, msg)
		} else {
			verifAssert(r.n == float64(len(pieces)) && r2.s == pieces[0], msg)
		}
	case 10:
		verifAssert(r.n == 2, msg)
	case 11:
		verifAssert(r.s == s+"|"+t, msg)
	case 12:
		verifAssert(r.s == verifRefSubstr(s, false, m+1, true, n-1), msg)
	case 13:
		verifAssert(r.n == float64(strings.Index(t, s)+1), msg)
	case 14:
		want := strings.Replace(s, "q", "Z", 1)
		verifAssert(r2.s == want && r.n == float64(verifMin(strings.Count(s, "q"), 1)), msg)
	case 15:
		verifAssert(r.n == 1 && r2.s == "rec 0rd" && p.line == "rec 0rd", msg)
	case 16:
		verifAssert(r2.s == strings.Replace(s, "q", "Z", -1) && r.n == float64(strings.Count(s, "q")), msg)
	case 17:
		k := strings.Index(s, "q")
		if k < 0 {
			verifAssert(r.n == 0 && r2.s == "0:-1", msg)
		} else {
			verifAssert(r.n == float64(k+1) && r2.s == verifItoa(k+1)+":1", msg)
		}
	case 18:
		want := math.Sqrt(x)
		verifAssert(r.n == want || (r.n != r.n && want != want), msg)
	case 19:
		verifAssert(r.n == math.Exp(y)+math.Log(1), msg)
	}
}

func verifMin(a, b int) int {
	if a < b {
		return a
	}
	return b
}

// membership, multi-dimensional subscripts, delete
func VerifC01ArrayOps() {
	i, j := verifString(verifIntRange(0, 1)), verifString(verifIntRange(0, 1))
	sep := verifString(1)
	env := verifEnv{vars: map[string]value{"i": str(i), "j": str(j), "sep": str(sep)}}
	progs := []string{
		`BEGIN { SUBSEP = sep; a[i, j] = 1; r = ((i, j) in a) ":" ((j, i) in a) ":" ((i SUBSEP j) in a) }`,
		`BEGIN { a[i] = 1; a[j] = 2; delete a[i]; r = (i in a) ":" (j in a) ":" length(a) }`,
		`BEGIN { a[i] = 1; a[j] = 2; delete a; r = (i in a) ":" (j in a) ":" length(a) }`,
		`BEGIN { r = (i in a) ":" length(a); x = a[i]; r = r ":" (i in a) ":" length(a) }`,
		`BEGIN { SUBSEP = sep; a[i, j] = 5; for (k in a) { n = split(k, parts, SUBSEP); r = n ":" parts[1] ":" parts[2] } }`,
		`function f(arr, k) { return k in arr } BEGIN { a[i] = 1; r = f(a, i) ":" f(a, j) }`,
		`BEGIN { a[i] = 1; if (!(j in a)) r = "no"; else r = "yes" }`,
		`BEGIN { SUBSEP = sep; a[i, j, i] = 1; delete a[i, j, i]; r = length(a) ":" ((i, j, i) in a) }`,
		`BEGIN { CONVFMT = "%.2g"; a[3.14159] = 1; k = 3.14159; r = (k in a) ":" (3.14159 in a) ":" length(a) ":" a[k] }`,
		`BEGIN { a[0.1 + 0.2] = 1; CONVFMT = "%.3f"; a[0.30000000000000004] = 2; k = 0.1 + 0.2; r = length(a) ":" a[k] }`,
	}
	pi := verifIntRange(0, len(progs)-1)
	b2s := func(c bool) string {
		if c {
			return "1"
		}
		return "0"
	}
	if pi == 4 {
		// split on a one-byte string separator: keep clear of the separators split treats specially
		verifAssume(!strings.Contains(i, sep) && !strings.Contains(j, sep) && sep != " " && sep != "\\")
	}
	p, err := verifExecEnv(progs[pi], env)
	verifAssert(err == nil, "array program failed")
	if err != nil {
		return
	}
	r := verifGlobal(p, "r").s
	const msg = "array membership / multi-dimensional subscript / delete does something other than the AWK definition"
	switch pi {
	case 0:
		_, have := verifArrayCell(p, "a", i+sep+j)
		verifAssert(have, "a[i, j] is not stored under i SUBSEP j")
		verifAssert(r == "1:"+b2s(j+sep+i == i+sep+j)+":1", msg)
	case 1:
		verifAssert(r == "0:"+b2s(j != i)+":"+b2s(j != i), msg)
	case 2:
		verifAssert(r == "0:0:0", msg)
	case 3:
		verifAssert(r == "0:0:1:1", msg) // a reference creates the element, a membership test does not
	case 4:
		verifAssert(r == "2:"+i+":"+j, msg)
	case 5:
		verifAssert(r == "1:"+b2s(j == i), msg)
	case 6:
		want := "no"
		if j == i {
			want = "yes"
		}
		verifAssert(r == want, msg)
	case 7:
		verifAssert(r == "0:0", msg)
	case 8:
		verifAssert(r == "1:1:1:1", "a constant subscript is not converted with the CONVFMT in force when the statement runs") // one element, under "3.1"
	case 9:
		verifAssert(r == "2:2", "a constant subscript is not converted with the CONVFMT in force when the statement runs") // "0.3" then "0.300"
	}
}

// ~ and !~ with a regex literal, a dynamic string and a bare regex pattern (matches $0)
func VerifC01MatchOps() {
	s := verifString(verifIntRange(0, verifBound(2, 3)))
	env := verifEnv{vars: map[string]value{"s": str(s), "re": str("X+")}, rec: s}
	progs := []string{
		`BEGIN { r = (s ~ /X+/) }`, `BEGIN { r = (s !~ /X+/) }`, `BEGIN { r = (s ~ re) }`, `BEGIN { r = (s !~ re) }`,
		`BEGIN { r = (s ~ "X+") }`, `BEGIN { if (/X+/) r = 1; else r = 0 }`, `BEGIN { r = /X+/ ? 1 : 0 }`, `BEGIN { r = !/X+/ }`,
		`BEGIN { r = (/X+/ ~ 1) }`,
	}
	i := verifIntRange(0, len(progs)-1)
	if s == "" {
		env.rec = ""
	}
	p, err := verifExecEnv(progs[i], env)
	verifAssert(err == nil, "match expression failed")
	has := strings.Contains(s, "X")
	want := has
	switch i {
	case 1, 3, 7:
		want = !has
	case 8:
		// (/X+/ ~ 1): the value of the bare regex (match against $0: 1 or 0) matched against the regex "1"
		want = has
	}
	w := 0.0
	if want {
		w = 1
	}
	verifAssert(verifGlobal(p, "r").typ == typeNum && verifGlobal(p, "r").n == w, "a match operator (literal, dynamic or bare regex) gives something other than whether the subject contains a match")
}

// operands with side effects on the assigned variable: statement position and expression position must agree
// (the statement shortcuts and the expression forms order "read the old value" and "evaluate the operand" the same way)
func VerifC01OperandEffects() {
	forms := []string{"L = E", "L += E", "L -= E", "L *= E", "L /= E"}
	form := forms[verifIntRange(0, len(forms)-1)]
	operands := []string{"$(x = 2)", "a[x = 5]", "(x = 3)", "x++", "++x", "g()", "(x += 2)", "$(x++)", "a[++x]", "x"}
	operand := operands[verifIntRange(0, len(operands)-1)]
	lvs := []string{"x", "a[x]", "$x", "$(x)", "arr[x, x++]"}
	l := lvs[verifIntRange(0, len(lvs)-1)]
	stmt := verifReplace(verifReplace(form, "L", l), "E", operand)
	frame := `function g() { x = 4; return 7 } BEGIN { a[1] = 10; a[2] = 20; a[3] = 30; a[4] = 40; a[5] = 50; a[6] = 60; $0 = "11 12 13 14 15 16"; STMT; r0 = $0; for (k in a) n++; for (k in arr) { m++; kk = k; kv = arr[k] }; s = a[1] ":" a[2] ":" a[3] ":" a[4] ":" a[5] ":" a[6] }`
	t1 := verifReplace(frame, "STMT", stmt)
	t2 := verifReplace(frame, "STMT", "d = ("+stmt+")")
	x0 := num(float64(verifIntRange(1, 3)))
	env := verifEnv{vars: map[string]value{"x": x0}}
	p1, e1 := verifExecEnv(t1, env)
	p2, e2 := verifExecEnv(t2, env)
	verifReach("ran-both")
	verifAssert(verifSameOutcome(p1, e1, p2, e2, []string{"x", "r0", "n", "m", "kk", "kv", "s"}, "", nil), "an assignment whose operand has a side effect on the assigned variable behaves differently as a statement and as an expression used for its value")
}

// concatenation always yields a string, whatever the operand types and however many operands are empty
func VerifC01ConcatTyping() {
	ka, kb, kc := verifIntRange(0, 3), verifIntRange(0, 3), verifIntRange(0, 3)
	a, b, c := verifTaggedConcreteNum(ka), verifTaggedConcreteNum(kb), verifTaggedConcreteNum(kc)
	form := func(v value) string {
		switch v.typ {
		case typeNum:
			switch v.n {
			case 0:
				return "0"
			case 1:
				return "1"
			case 10:
				return "10"
			}
			return "-1.5"
		case typeNull:
			return ""
		}
		return v.s
	}
	progs := []string{`BEGIN { r = a b c; if (a b c) t = 1; else t = 0 }`, `BEGIN { r = a b; if (a b) t = 1; else t = 0 }`, `BEGIN { r = a b c a; t = (a b c a) ? 1 : 0 }`, `BEGIN { r = (a b) c; t = !!((a b) c) }`}
	i := verifIntRange(0, len(progs)-1)
	want := []string{form(a) + form(b) + form(c), form(a) + form(b), form(a) + form(b) + form(c) + form(a), form(a) + form(b) + form(c)}[i]
	p, err := verifExecEnv(progs[i], verifEnv{vars: map[string]value{"a": a, "b": b, "c": c}})
	verifAssert(err == nil, "concatenation failed")
	r, t := verifGlobal(p, "r"), verifGlobal(p, "t")
	verifAssert(r.typ == typeStr && r.s == want, "a concatenation is not the string made of the operands' string forms (it must be a string even when all operands but one are empty)")
	wt := 0.0
	if want != "" {
		wt = 1
	}
	verifAssert(t.n == wt, "the truth value of a concatenation is not that of a string (non-empty = true, so \"0\" is true)")
}

// getline var: whatever kind of variable receives the line, it holds a numeric string (input-derived) with the same text
func VerifC01GetlineTargets() {
	line := verifBytes(verifIntRange(1, 2))
	for _, b := range line {
		verifAssume(b != '\n' && b != '\r')
	}
	file := append(append([]byte{}, line...), '\n')
	uses := `r = (V < 9.5) ":" (V == 0) ":" (V "") ":" (V ? "t" : "f")`
	frames := []string{
		`BEGIN { getline V < "o"; USES }`,
		`function f(V) { getline V < "o"; USES } BEGIN { f() }`,
		`function f(q, V) { getline V < "o"; USES } BEGIN { f(1) }`,
		`BEGIN { getline V < "o"; USES }`, // array element
		`function f(la) { getline V < "o"; USES } BEGIN { f(arr) }`,
		`BEGIN { $0 = "p q"; getline V < "o"; USES }`, // field
		`BEGIN { getline < "o"; USES }`,               // $0
		`function f(V) { getline V; USES } BEGIN { f() }`,
	}
	names := []string{"v", "v", "v", `a["k"]`, "la[1]", "$2", "$0", "v"}
	fi := verifIntRange(0, len(frames)-1)
	src := verifReplace(verifReplace(frames[fi], "USES", uses), "V", names[fi])
	fs := &verifFS{files: map[string][]byte{"o": file}}
	cfg := &Config{Stdin: bytes.NewReader(file), Output: &bytes.Buffer{}, Error: &bytes.Buffer{}, Environ: []string{}, OpenFile: fs.open}
	_, err, p := verifRunProgram(src, cfg, nil)
	verifAssert(err == nil, "getline program failed")
	// reference: the same uses on a variable that holds the numeric string directly
	q, err2 := verifExecEnv(`BEGIN { `+verifReplace(uses, "V", "v")+` }`, verifEnv{vars: map[string]value{"v": numStr(string(line))}})
	verifAssert(err2 == nil, "reference program failed")
	verifReach("compared")
	verifAssert(verifGlobal(p, "r").s == verifGlobal(q, "r").s, "a line read by getline into a variable / local / array element / field does not behave as the numeric string the input is (comparison, truth value or text differ)")
}
