package interp

import (
	"bytes"
	"fmt"
	"math"
	"unicode/utf8"
)

// C09 — the printf/sprintf translation layer: format rewriting and operand typing
// (the digits fmt.Sprintf produces are trusted and outside the claim).

func verifIsFlagChar(c byte) bool {
	return c == ' ' || c == '.' || c == '-' || c == '+' || c == '#' || c == '*' || (c >= '0' && c <= '9')
}

// independent scanner of a C printf format: number of operands, validity, and per conversion the verb
type verifConv struct {
	verbPos   int
	verb      byte
	stars     int
	hasPrec   bool
	plusSpace bool
}

func verifScanFormat(f string) (convs []verifConv, ok bool) {
	for i := 0; i < len(f); i++ {
		if f[i] != '%' {
			continue
		}
		i++
		if i >= len(f) {
			return convs, false
		}
		if f[i] == '%' {
			continue
		}
		c := verifConv{}
		for i < len(f) && verifIsFlagChar(f[i]) {
			switch f[i] {
			case '*':
				c.stars++
			case '.':
				c.hasPrec = true
			case '+', ' ':
				c.plusSpace = true
			}
			i++
		}
		if i >= len(f) {
			return convs, false
		}
		c.verb, c.verbPos = f[i], i
		switch f[i] {
		case 'd', 'i', 'o', 'x', 'X', 'u', 'c', 's', 'e', 'E', 'f', 'g', 'G', 'a', 'A':
		default:
			return convs, false
		}
		convs = append(convs, c)
	}
	return convs, true
}

func VerifC09Types() {
	n := verifIntRange(0, verifBound(4, 5))
	s := verifString(n)
	p := &interp{formatCache: map[string]cachedFormat{}}
	format, types, err := p.parseFmtTypes(s)
	convs, valid := verifScanFormat(s)
	verifAssert((err == nil) == valid, "a format with a dangling % or an unknown conversion must be an error, and only such a format")
	if err != nil {
		return
	}
	verifReach("accepted-format")
	want := 0
	for _, c := range convs {
		want += 1 + c.stars
	}
	verifAssert(len(types) == want, "number of typed operands differs from the number of operands the format consumes (each * counts)")
	// the rewritten format is the input with the verb table i,u->d c->s a->x A->X applied and C's default
	// precision made explicit for %g / %G (Go's %g without a precision prints shortest-repr digits)
	wantFmt := ""
	prev := 0
	unsafeSign := false
	for _, c := range convs {
		wantFmt += s[prev:c.verbPos]
		w := c.verb
		switch c.verb {
		case 'i', 'u':
			w = 'd'
		case 'c':
			w = 's'
		case 'a':
			w = 'x'
		case 'A':
			w = 'X'
		case 'g', 'G':
			if !c.hasPrec {
				wantFmt += ".6"
			}
		}
		wantFmt += string([]byte{w})
		prev = c.verbPos + 1
		if c.plusSpace && (c.verb == 'o' || c.verb == 'x' || c.verb == 'X' || c.verb == 'u') {
			unsafeSign = true
		}
	}
	wantFmt += s[prev:]
	verifKnown("C09-sign-flag-on-unsigned", unsafeSign)
	verifAssert(!unsafeSign, "a + or space flag on an unsigned conversion (o x X u) reaches fmt.Sprintf, which prints a sign where C printf does not")
	verifAssert(format == wantFmt, "the rewritten format is not the input with the verb table (i,u->d c->s a->x A->X) and the default %g precision applied")
}

// operand kinds: 0 number (any float64), 1 string, 2 numeric input string, 3 unset
func verifPrintfOperand(kind int) value {
	switch kind {
	case 0:
		return num(verifFloat64())
	case 1:
		return str(verifString(verifIntRange(0, 2)))
	case 2:
		return numStr([]string{"", "7", "-2", "x1", "é"}[verifIntRange(0, 4)])
	}
	return null()
}

// the operands handed to fmt.Sprintf are the AWK value converted by the documented rule for each verb
func VerifC09Args() {
	chars := verifIntRange(0, 1) == 1
	p := &interp{formatCache: map[string]cachedFormat{}, convertFormat: "%.6g", chars: chars}
	verbs := []string{"%d", "%i", "%5.2f", "%e", "%.3g", "%s", "%c", "%x", "%o", "%u", "%-4d|%s"}
	vi := verifIntRange(0, len(verbs)-1)
	a := verifPrintfOperand(verifIntRange(0, 3))
	args := []value{a}
	var ref []interface{}
	var gofmt string
	x := a.num()
	switch verbs[vi] {
	case "%d", "%i":
		verifAssume(x == x && x < 9.2e18 && x > -9.2e18) // |x| >= 2^63 and NaN are outside the claim
		gofmt, ref = "%d", []interface{}{int64(math.Trunc(x))}
	case "%5.2f", "%e", "%.3g":
		gofmt, ref = verbs[vi], []interface{}{x}
	case "%s":
		gofmt, ref = "%s", []interface{}{a.str("%.6g")}
	case "%x", "%o", "%u":
		verifAssume(x == x && x < 9.2e18 && x > -9.2e18)
		gofmt = verbs[vi]
		if gofmt == "%u" {
			gofmt = "%d"
		}
		ref = []interface{}{uint64(int64(math.Trunc(x)))} // two's-complement image
	case "%c":
		gofmt = "%s"
		if _, isStr := a.isTrueStr(); isStr {
			s := a.str("%.6g")
			switch {
			case s == "":
				return // %c of an empty string: unspecified, outside the claim
			case chars:
				_, size := utf8.DecodeRuneInString(s)
				ref = []interface{}{[]byte(s[:size])}
			default:
				ref = []interface{}{[]byte{s[0]}}
			}
		} else {
			verifAssume(x >= 0 && x < 256 && x == math.Trunc(x)) // character codes 0..255
			if chars {
				buf := make([]byte, 4)
				k := utf8.EncodeRune(buf, rune(int(x)))
				ref = []interface{}{buf[:k]}
			} else {
				ref = []interface{}{[]byte{byte(int(x))}}
			}
		}
	default: // two conversions, second operand a string
		verifAssume(x == x && x < 9.2e18 && x > -9.2e18)
		b := str(verifString(1))
		args = append(args, b)
		gofmt, ref = verbs[vi], []interface{}{int64(math.Trunc(x)), b.s}
	}
	got, err := p.sprintf(verbs[vi], args)
	verifAssert(err == nil, "sprintf failed on a valid format with enough arguments")
	verifReach("formatted")
	verifAssert(got == fmt.Sprintf(gofmt, ref...), "sprintf hands fmt.Sprintf operands other than the AWK value converted by the documented rule (d i: truncated integer; o x X u: two's-complement image; e f g: the number; s: the string; c: the character)")
}

// too few arguments (each * counts) is a run-time error
func VerifC09TooFew() {
	p := &interp{formatCache: map[string]cachedFormat{}, convertFormat: "%.6g"}
	formats := []string{"%d", "%s %d", "%*d", "%*.*f", "%c%c%c", "100%%", "%5s|%-5s"}
	need := []int{1, 2, 2, 3, 3, 0, 2}
	fi := verifIntRange(0, len(formats)-1)
	na := verifIntRange(0, 3)
	args := make([]value, na)
	for i := range args {
		args[i] = num(float64(verifIntRange(0, 2)))
	}
	_, err := p.sprintf(formats[fi], args)
	verifAssert((err != nil) == (na < need[fi]), "sprintf must fail exactly when there are fewer arguments than conversions (counting each *)")
}

// several conversions in one format: each is rewritten on its own (no state carried from one to the next)
func VerifC09MultiSpec() {
	specs := []string{"%g", "%.2f", "%5.1s", "%.*d", "%G", "%-+5d", "%c", "%%", "%i", "%u", "%x", "%5g", "% d", "%#o", "%e", "%.3G"}
	want := []string{"%.6g", "%.2f", "%5.1s", "%.*d", "%.6G", "%-+5d", "%s", "%%", "%d", "%d", "%x", "%5.6g", "% d", "%#o", "%e", "%.3G"}
	n := verifIntRange(1, verifBound(3, 4))
	src, exp := "", ""
	ntypes := 0
	for k := 0; k < n; k++ {
		i := verifIntRange(0, len(specs)-1)
		sepText := []string{"", " ", "x:"}[verifIntRange(0, 2)]
		src += sepText + specs[i]
		exp += sepText + want[i]
		switch specs[i] {
		case "%%":
		case "%.*d":
			ntypes += 2
		default:
			ntypes++
		}
	}
	p := &interp{formatCache: map[string]cachedFormat{}}
	format, types, err := p.parseFmtTypes(src)
	verifAssert(err == nil && format == exp && len(types) == ntypes, "a format with several conversions is not rewritten conversion by conversion (verb table, default %g precision, one operand type per conversion and per *)")
	// a second call is served from the cache and must give the same answer
	f2, t2, err2 := p.parseFmtTypes(src)
	verifAssert(err2 == nil && f2 == format && len(t2) == len(types), "the cached translation of a format differs from the first one")
}

// print converts numbers with OFMT (not CONVFMT), integral ones as integers, in every output mode
func VerifC09PrintOFMT() {
	p := &interp{convertFormat: "%.2g", outputFormat: "%.3g", outputFieldSep: " ", outputRecordSep: "\n"}
	mode := verifIntRange(0, 2)
	fieldSep := " "
	switch mode {
	case 1:
		p.outputMode, p.csvOutputConfig = CSVMode, CSVOutputConfig{Separator: ','}
		fieldSep = ","
	case 2:
		p.outputMode, p.csvOutputConfig = TSVMode, CSVOutputConfig{Separator: '\t'}
		fieldSep = "\t"
	}
	vals := []float64{3.14159, 1000000.5, 2, -0.125, 1e30}
	want := []string{"3.14", "1e+06", "2", "-0.125", "1e+30"}
	i := verifIntRange(0, len(vals)-1)
	var out bytes.Buffer
	err := p.printArgs(&out, []value{num(vals[i]), str("s")})
	verifAssert(err == nil && out.String() == want[i]+fieldSep+"s\n", "print does not write numbers with OFMT (integral ones as integers)")
}
