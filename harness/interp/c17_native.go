package interp

import (
	"bytes"
	"errors"
	"math"
	"strconv"

	"github.com/benhoyt/goawk/parser"
)

// C17 — Go functions exposed to AWK convert arguments and results as documented.
//
// The reflect calls made by callNative / toNative / fromNative / checkNativeFunc and by the resolver's argument
// count check are executed by the engine's reflect semantics (engine/reflectmodel.go); everything else is the
// real code.  Natively (replay) the real package reflect runs.

type verifCall struct {
	fn   string
	args []any
}

var verifCalls []verifCall

func verifNatRec(fn string, args ...any) { verifCalls = append(verifCalls, verifCall{fn, args}) }

var verifC17Err = errors.New("native failure")

// one identity function per documented kind (index = kind number used by the harnesses)
func verifKBool(a bool) bool          { verifNatRec("k00", a); return a }
func verifKInt(a int) int             { verifNatRec("k01", a); return a }
func verifKInt8(a int8) int8          { verifNatRec("k02", a); return a }
func verifKInt16(a int16) int16       { verifNatRec("k03", a); return a }
func verifKInt32(a int32) int32       { verifNatRec("k04", a); return a }
func verifKInt64(a int64) int64       { verifNatRec("k05", a); return a }
func verifKUint(a uint) uint          { verifNatRec("k06", a); return a }
func verifKUint8(a uint8) uint8       { verifNatRec("k07", a); return a }
func verifKUint16(a uint16) uint16    { verifNatRec("k08", a); return a }
func verifKUint32(a uint32) uint32    { verifNatRec("k09", a); return a }
func verifKUint64(a uint64) uint64    { verifNatRec("k10", a); return a }
func verifKFloat32(a float32) float32 { verifNatRec("k11", a); return a }
func verifKFloat64(a float64) float64 { verifNatRec("k12", a); return a }
func verifKString(a string) string    { verifNatRec("k13", a); return a }
func verifKBytes(a []byte) []byte     { verifNatRec("k14", string(a)); return a }

// several kinds in several positions; variadic tails; error results; no result
func verifMixA(a string, b int8, c bool, d float32, e uint16) int {
	verifNatRec("mixa", a, b, c, d, e)
	return 7
}
func verifMixB(a []byte, b float64, c uint64, d int32, e string) string {
	verifNatRec("mixb", string(a), b, c, d, e)
	return "mixb"
}
func verifVarInt(a string, rest ...int) int {
	args := []any{a}
	for _, r := range rest {
		args = append(args, r)
	}
	verifNatRec("varint", args...)
	return len(rest)
}
func verifVarStr(rest ...string) string {
	var args []any
	out := ""
	for _, r := range rest {
		args = append(args, r)
		out += "[" + r + "]"
	}
	verifNatRec("varstr", args...)
	return out
}
func verifErrFn(a int) (int, error) {
	verifNatRec("zerr", a)
	if a < 0 {
		return 99, verifC17Err
	}
	return a + 1, nil
}
func verifNoResult(a string, b uint8) { verifNatRec("anone", a, b) }

var verifKindNames = []string{"k00", "k01", "k02", "k03", "k04", "k05", "k06", "k07", "k08", "k09", "k10", "k11", "k12", "k13", "k14"}

func verifC17Funcs() map[string]any {
	return map[string]any{
		"mixb": verifMixB, "k00": verifKBool, "k01": verifKInt, "zerr": verifErrFn, "k02": verifKInt8, "k03": verifKInt16,
		"k04": verifKInt32, "varstr": verifVarStr, "k05": verifKInt64, "k06": verifKUint, "k07": verifKUint8, "anone": verifNoResult,
		"k08": verifKUint16, "k09": verifKUint32, "k10": verifKUint64, "mixa": verifMixA, "k11": verifKFloat32, "k12": verifKFloat64,
		"k13": verifKString, "varint": verifVarInt, "k14": verifKBytes,
	}
}

// position of name among the sorted names (the documented index rule), computed without package sort
func verifNativeIndex(funcs map[string]any, name string) int {
	idx := 0
	for other := range funcs {
		if other < name {
			idx++
		}
	}
	return idx
}

// ---- the documented conversion table, written independently of value.go / functions.go ----

// number an AWK value stands for: a number is itself, unset is 0, a string is its longest numeric prefix
func verifRefNum(v value) float64 {
	switch v.typ {
	case typeNum:
		return v.n
	case typeNull:
		return 0
	}
	start, end, kind, hexExp := verifNumPrefix(v.s)
	switch kind {
	case 0:
		return 0
	case 3:
		return math.NaN()
	case 4:
		if v.s[start] == '-' {
			return math.Inf(-1)
		}
		return math.Inf(1)
	}
	txt := v.s[start:end]
	if kind == 2 && !hexExp {
		txt += "p0"
	}
	f, _ := strconv.ParseFloat(txt, 64)
	return f
}

func verifRefTruth(v value) bool {
	switch v.typ {
	case typeNum:
		return v.n != 0
	case typeNull:
		return false
	}
	if verifRefTrueStr(v) {
		return v.s != ""
	}
	return verifRefNum(v) != 0
}

// checkArg compares what a Go parameter of the given kind received with the documented conversion of v.
// Integer kinds: the number truncated toward zero when that lies in the parameter type's range (and in the
// int64 range); outside it Go leaves float-to-integer conversion implementation-defined and nothing is asserted.
func verifCheckArg(p *interp, kind int, v value, got any) {
	x := verifRefNum(v)
	tr := math.Trunc(x)
	inRange := func(lo, hi float64) bool { return x == x && tr >= lo && tr <= hi }
	const msg = "an integer parameter did not receive the AWK number truncated toward zero"
	switch kind {
	case 0:
		g, ok := got.(bool)
		verifAssert(ok && g == verifRefTruth(v), "a bool parameter did not receive the AWK truth value of the argument")
	case 1:
		g, ok := got.(int)
		verifAssert(ok, "wrong Go type passed for int")
		if inRange(-9223372036854775808.0, 9223372036854774784.0) {
			verifAssert(g == int(tr), msg)
		}
	case 2:
		g, ok := got.(int8)
		verifAssert(ok, "wrong Go type passed for int8")
		if inRange(-128, 127) {
			verifAssert(g == int8(tr), msg)
		}
	case 3:
		g, ok := got.(int16)
		verifAssert(ok, "wrong Go type passed for int16")
		if inRange(-32768, 32767) {
			verifAssert(g == int16(tr), msg)
		}
	case 4:
		g, ok := got.(int32)
		verifAssert(ok, "wrong Go type passed for int32")
		if inRange(-2147483648, 2147483647) {
			verifAssert(g == int32(tr), msg)
		}
	case 5:
		g, ok := got.(int64)
		verifAssert(ok, "wrong Go type passed for int64")
		if inRange(-9223372036854775808.0, 9223372036854774784.0) {
			verifAssert(g == int64(tr), msg)
		}
	case 6:
		g, ok := got.(uint)
		verifAssert(ok, "wrong Go type passed for uint")
		if inRange(0, 9223372036854774784.0) {
			verifAssert(g == uint(tr), msg)
		}
	case 7:
		g, ok := got.(uint8)
		verifAssert(ok, "wrong Go type passed for uint8")
		if inRange(0, 255) {
			verifAssert(g == uint8(tr), msg)
		}
	case 8:
		g, ok := got.(uint16)
		verifAssert(ok, "wrong Go type passed for uint16")
		if inRange(0, 65535) {
			verifAssert(g == uint16(tr), msg)
		}
	case 9:
		g, ok := got.(uint32)
		verifAssert(ok, "wrong Go type passed for uint32")
		if inRange(0, 4294967295) {
			verifAssert(g == uint32(tr), msg)
		}
	case 10:
		g, ok := got.(uint64)
		verifAssert(ok, "wrong Go type passed for uint64")
		if inRange(0, 9223372036854774784.0) {
			verifAssert(g == uint64(tr), msg)
		}
	case 11:
		g, ok := got.(float32)
		verifAssert(ok && (g == float32(x) || (g != g && x != x)), "a float32 parameter did not receive the AWK number rounded to float32")
	case 12:
		g, ok := got.(float64)
		verifAssert(ok && verifSameFloat(g, x), "a float64 parameter did not receive the AWK number")
	case 13, 14:
		g, ok := got.(string)
		verifAssert(ok, "wrong Go type passed for a string kind")
		switch v.typ {
		case typeNull:
			verifAssert(g == "", "an unset argument did not arrive as the empty string")
		case typeStr, typeNumStr:
			verifAssert(g == v.s, "a string argument did not arrive unchanged")
		default:
			// AWK's string form of a number (integers as integers, others through CONVFMT) is what C05 checks;
			// here: the parameter receives exactly that form, and for the fixed numbers its text is spelled out
			verifAssert(g == p.toString(v), "a number argument did not arrive in AWK's string form (integers as integers, others through CONVFMT, not OFMT)")
		}
	}
}

// for the fixed numbers handed to string kinds the text is spelled out (CONVFMT is %.2f in these harnesses)
func verifCheckSpelled(kind int, v value, got any) {
	g, ok := got.(string)
	if !ok || v.typ != typeNum || (kind != 13 && kind != 14) {
		return
	}
	switch v.n {
	case 2.5:
		verifAssert(g == "2.50", "2.5 did not arrive formatted by CONVFMT")
	case -0.000001:
		verifAssert(g == "-0.00", "-0.000001 did not arrive formatted by CONVFMT")
	case 123456789:
		verifAssert(g == "123456789", "an integral number did not arrive as an integer")
	case 3.75:
		verifAssert(g == "3.75", "3.75 did not arrive formatted by CONVFMT")
	case 41.9:
		verifAssert(g == "41.90", "41.9 did not arrive formatted by CONVFMT")
	}
}

// checkResult compares the AWK value a call produced with the documented conversion of the Go result
func verifCheckResult(kind int, got any, r value) {
	switch kind {
	case 0:
		want := 0.0
		if got.(bool) {
			want = 1
		}
		verifAssert(r.typ == typeNum && r.n == want, "a bool result did not become 1 or 0")
	case 1:
		verifAssert(r.typ == typeNum && r.n == float64(got.(int)), "an int result did not become that number")
	case 2:
		verifAssert(r.typ == typeNum && r.n == float64(got.(int8)), "an int8 result did not become that number")
	case 3:
		verifAssert(r.typ == typeNum && r.n == float64(got.(int16)), "an int16 result did not become that number")
	case 4:
		verifAssert(r.typ == typeNum && r.n == float64(got.(int32)), "an int32 result did not become that number")
	case 5:
		verifAssert(r.typ == typeNum && r.n == float64(got.(int64)), "an int64 result did not become that number")
	case 6:
		verifAssert(r.typ == typeNum && r.n == float64(got.(uint)), "a uint result did not become that number")
	case 7:
		verifAssert(r.typ == typeNum && r.n == float64(got.(uint8)), "a uint8 result did not become that number")
	case 8:
		verifAssert(r.typ == typeNum && r.n == float64(got.(uint16)), "a uint16 result did not become that number")
	case 9:
		verifAssert(r.typ == typeNum && r.n == float64(got.(uint32)), "a uint32 result did not become that number")
	case 10:
		verifAssert(r.typ == typeNum && r.n == float64(got.(uint64)), "a uint64 result did not become that number")
	case 11:
		verifAssert(r.typ == typeNum && verifSameFloat(r.n, float64(got.(float32))), "a float32 result did not become that number")
	case 12:
		verifAssert(r.typ == typeNum && verifSameFloat(r.n, got.(float64)), "a float64 result did not become that number")
	case 13, 14:
		verifAssert(r.typ == typeStr && r.s == got.(string), "a string or []byte result did not become that string")
	}
}

const verifC17Convfmt, verifC17Ofmt = "%.2f", "%.4f"

func verifNativeInterp(funcs map[string]any) *interp {
	p := verifBuiltinInterp(false)
	p.convertFormat, p.outputFormat = verifC17Convfmt, verifC17Ofmt
	verifAssert(p.initNativeFuncs(funcs) == nil, "a function map of documented shapes was rejected")
	return p
}

// an AWK argument for a parameter of the given kind: unset, number, string, numeric string.  The three accessors
// the conversion uses (truth value, number, string form) each see fully symbolic strings through one kind (bool,
// int16 and float64, string); the other kinds take their strings from a fixed list.  []byte parameters take
// numbers from a fixed list (a formatted symbolic number has no bytes in the engine).
func verifC17Operand(kind, maxLen int, symNumToString bool) value {
	shape := verifIntRange(0, 3)
	switch shape {
	case 0:
		return null()
	case 1:
		if kind == 14 || (kind == 13 && !symNumToString) {
			return num([]float64{0, -1, 2.5, 1e6, 123456789, 1e300, -0.000001}[verifIntRange(0, 6)])
		}
		return num(verifFloat64())
	}
	var s string
	if kind == 0 || kind == 3 || kind == 12 || kind == 13 {
		s = verifString(verifIntRange(0, maxLen))
	} else {
		s = []string{"", "12abc", " -3.9", "0x1A", "1e3", "+.5e1x", "x", "-0", "300", "70000", "-129"}[verifIntRange(0, 10)]
	}
	if shape == 2 {
		return str(s)
	}
	return numStr(s)
}

// every kind x every AWK argument shape, at the unit that does the conversion (callNative)
func VerifC17Convert() {
	kind := verifIntRange(0, 14)
	v := verifC17Operand(kind, verifBound(2, 3), true)
	funcs := verifC17Funcs()
	p := verifNativeInterp(funcs)
	verifCalls = nil
	r, err := p.callNative(verifNativeIndex(funcs, verifKindNames[kind]), []value{v})
	verifAssert(err == nil, "a call without an error result failed")
	verifAssert(len(verifCalls) == 1 && verifCalls[0].fn == verifKindNames[kind] && len(verifCalls[0].args) == 1, "the call did not reach exactly the function named (index order differs from name order?)")
	if len(verifCalls) != 1 || len(verifCalls[0].args) != 1 {
		return
	}
	verifReach("converted")
	verifCheckArg(p, kind, v, verifCalls[0].args[0])
	verifCheckResult(kind, verifCalls[0].args[0], r)
}

func verifParseWithFuncs(src string, funcs map[string]any) (prog *parser.Program, err error) {
	return parser.ParseProgram([]byte(src), &parser.ParserConfig{Funcs: funcs})
}

var verifC17Arity = map[string]int{"mixa": 5, "mixb": 5, "anone": 2, "zerr": 1, "k03": 1}
var verifC17ParamKinds = map[string][]int{"mixa": {13, 2, 0, 11, 8}, "mixb": {14, 12, 10, 4, 13}, "anone": {13, 7}, "zerr": {1}, "k03": {3}}

// positions, zero fill for missing arguments, too many arguments is a parse error: through parser, resolver, compiler and VM
func VerifC17Positions() {
	names := []string{"mixa", "mixb", "anone", "zerr", "k03"}
	name := names[verifIntRange(0, len(names)-1)]
	arity := verifC17Arity[name]
	nargs := verifIntRange(0, arity+1)
	// an earlier call of the same function with every argument given: nothing of it may show in the examined call
	src := "BEGIN { " + name + "("
	for i := 0; i < arity; i++ {
		if i > 0 {
			src += ", "
		}
		src += "\"earlier\" " + strconv.Itoa(i+5)
	}
	src += "); r = " + name + "("
	for i := 0; i < nargs; i++ {
		if i > 0 {
			src += ", "
		}
		src += "a" + strconv.Itoa(i)
	}
	src += ") }"
	funcs := verifC17Funcs()
	prog, err := verifParseWithFuncs(src, funcs)
	if nargs > arity {
		verifReach("too-many-arguments")
		verifAssert(err != nil, "more arguments than a non-variadic Go function has parameters is not a parse error")
		return
	}
	verifAssert(err == nil, "a call with at most as many arguments as parameters does not parse")
	if err != nil {
		return
	}
	p := newInterp(prog)
	p.convertFormat, p.outputFormat = verifC17Convfmt, verifC17Ofmt
	verifAssert(p.initNativeFuncs(funcs) == nil, "a function map of documented shapes was rejected")
	vals := make([]value, nargs)
	sym := verifIntRange(0, 5) // the one argument position that carries a symbolic value; the others are fixed
	for i := range vals {
		if i == sym {
			vals[i] = verifC17Operand(verifC17ParamKinds[name][i], 2, false)
		} else {
			vals[i] = []value{num(3.75), str("7up"), num(-2), null(), str("")}[(i+nargs)%5]
		}
		p.globals[p.scalarIndexes["a"+strconv.Itoa(i)]] = vals[i]
	}
	verifCalls = nil
	e := p.execute(prog.Compiled.Begin)
	wantCalls := 2
	if name == "zerr" {
		wantCalls = 2 // the earlier call passes 5, which is not an error
	}
	verifAssert(len(verifCalls) == wantCalls && verifCalls[wantCalls-1].fn == name, "the call did not reach exactly the function named")
	if len(verifCalls) != wantCalls {
		return
	}
	got := verifCalls[wantCalls-1].args
	verifAssert(len(got) == arity, "the Go function did not receive one value per parameter")
	if len(got) != arity {
		return
	}
	kinds := verifC17ParamKinds[name]
	for i := 0; i < arity; i++ {
		if i < nargs {
			verifCheckArg(p, kinds[i], vals[i], got[i])
			verifCheckSpelled(kinds[i], vals[i], got[i])
		} else {
			verifCheckArg(p, kinds[i], null(), got[i]) // zero value = what an unset argument converts to
			switch g := got[i].(type) {
			case string:
				verifAssert(g == "", "a missing string argument is not the zero value")
			case float32:
				verifAssert(g == 0, "a missing float argument is not the zero value")
			case float64:
				verifAssert(g == 0, "a missing float argument is not the zero value")
			}
		}
	}
	verifReach("positions-checked")
	r := p.globals[p.scalarIndexes["r"]]
	switch name {
	case "mixa":
		verifAssert(e == nil && r.typ == typeNum && r.n == 7, "int result lost")
	case "mixb":
		verifAssert(e == nil && r.typ == typeStr && r.s == "mixb", "string result lost")
	case "anone":
		verifAssert(e == nil && r.typ == typeNull, "a function without results did not yield the unset value")
	case "k03":
		verifCheckResult(3, got[0], r)
	case "zerr":
		a := got[0].(int)
		if a < 0 {
			verifReach("error-result")
			verifAssert(e == verifC17Err, "a non-nil error result did not abort the run with exactly that error")
		} else {
			verifAssert(e == nil && r.typ == typeNum && r.n == float64(a+1), "the first result of a (value, nil) return was lost")
		}
	}
}

// extra arguments are spread over the variadic tail, each converted by the element kind
func VerifC17Variadic() {
	which := verifIntRange(0, 1)
	name := []string{"varint", "varstr"}[which]
	nargs := verifIntRange(0, 4)
	src := "BEGIN { r = " + name + "("
	for i := 0; i < nargs; i++ {
		if i > 0 {
			src += ", "
		}
		src += "a" + strconv.Itoa(i)
	}
	src += ") }"
	funcs := verifC17Funcs()
	prog, err := verifParseWithFuncs(src, funcs)
	verifAssert(err == nil, "a variadic call does not parse")
	if err != nil {
		return
	}
	p := newInterp(prog)
	p.convertFormat, p.outputFormat = verifC17Convfmt, verifC17Ofmt
	verifAssert(p.initNativeFuncs(funcs) == nil, "a function map of documented shapes was rejected")
	vals := make([]value, nargs)
	sym := verifIntRange(0, 3)
	for i := range vals {
		if i == sym {
			k := 1
			if which == 1 || i == 0 {
				k = 13
			}
			vals[i] = verifC17Operand(k, 2, false)
		} else {
			vals[i] = []value{num(41.9), str("x"), num(-7), null()}[(i+nargs)%4]
		}
		p.globals[p.scalarIndexes["a"+strconv.Itoa(i)]] = vals[i]
	}
	verifCalls = nil
	e := p.execute(prog.Compiled.Begin)
	verifAssert(e == nil && len(verifCalls) == 1 && verifCalls[0].fn == name, "the variadic call did not reach the function")
	if len(verifCalls) != 1 {
		return
	}
	got := verifCalls[0].args
	r := p.globals[p.scalarIndexes["r"]]
	if which == 0 {
		// varint(a string, rest ...int): the fixed parameter is zero-filled when missing
		want := nargs
		if want < 1 {
			want = 1
		}
		verifAssert(len(got) == want, "the variadic function did not receive the fixed parameter plus one value per extra argument")
		if len(got) != want {
			return
		}
		for i := range got {
			k := 1
			if i == 0 {
				k = 13
			}
			if i < nargs {
				verifCheckArg(p, k, vals[i], got[i])
				verifCheckSpelled(k, vals[i], got[i])
			} else {
				verifCheckArg(p, k, null(), got[i])
			}
		}
		verifAssert(r.typ == typeNum && r.n == float64(want-1), "result of the variadic call lost")
	} else {
		verifAssert(len(got) == nargs, "the variadic tail does not have one element per argument")
		if len(got) != nargs {
			return
		}
		want := ""
		for i := range got {
			verifCheckArg(p, 13, vals[i], got[i])
			verifCheckSpelled(13, vals[i], got[i])
			want += "[" + got[i].(string) + "]"
		}
		verifAssert(r.typ == typeStr && r.s == want, "result of the variadic call lost")
	}
	verifReach("variadic-checked")
}

// ---- signature validation at setup ----

func verifBadComplex(a complex128) int         { return 0 }
func verifBadMap(a map[string]int) int         { return 0 }
func verifBadIntSlice(a []int) int             { return 0 }
func verifBadPtr(a *int) int                   { return 0 }
func verifBadIface(a any) int                  { return 0 }
func verifBadResult(a int) []string            { return nil }
func verifBadResult2(a int) (int, int)         { return 0, 0 }
func verifBadResult3(a int) (int, error, int)  { return 0, nil, 0 }
func verifBadErrFirst(a int) (error, int)      { return nil, 0 }
func verifBadVariadic(a int, rest ...[]string) {}
func verifBadStruct(a struct{ X int }) int     { return 0 }
func verifBadFunc(a func()) int                { return 0 }
func verifBadResultErrOnly(a int) error        { return nil }
func verifBadUintptr(a uintptr) int            { return 0 }
func verifGoodVariadicBytes(rest ...[]byte)    {}

func VerifC17Validation() {
	bad := []any{
		3, "not a function", verifBadComplex, verifBadMap, verifBadIntSlice, verifBadPtr, verifBadIface, verifBadResult, verifBadResult2,
		verifBadResult3, verifBadErrFirst, verifBadVariadic, verifBadStruct, verifBadFunc, verifBadResultErrOnly, verifBadUintptr, []byte("x"),
		nil, (func(int) int)(nil),
	}
	i := verifIntRange(0, len(bad)-1)
	p := verifBuiltinInterp(false)
	err := p.initNativeFuncs(map[string]any{"k01": verifKInt, "bad": bad[i], "zz": verifKString})
	verifReach("shape-checked")
	verifAssert(err != nil, "a value that is not a function of the documented shape (or is a nil function) was accepted at setup")
	// the public entry points: parsing a program that calls it does not panic (an error is fine), and running is refused
	funcs := map[string]any{"bad": bad[i]}
	prog, perr := verifParseWithFuncs("BEGIN { bad(1) }", funcs)
	if perr != nil {
		verifReach("rejected-at-parse")
		prog = verifParse("BEGIN { }")
	}
	_, e2 := ExecProgram(prog, &Config{Funcs: funcs, Environ: []string{}})
	verifAssert(e2 != nil, "ExecProgram accepted a value that is not a function of the documented shape")
	// a reused Interpreter refuses it on every run, not only the first
	ip, _ := New(prog)
	_, e3 := ip.Execute(&Config{Funcs: funcs, Environ: []string{}, Stdin: bytes.NewReader(nil), Output: &bytes.Buffer{}})
	_, e4 := ip.Execute(&Config{Funcs: funcs, Environ: []string{}, Stdin: bytes.NewReader(nil), Output: &bytes.Buffer{}})
	verifAssert(e3 != nil && e4 != nil, "a reused Interpreter accepted a value that is not a function of the documented shape on its first or a later Execute")
}

func VerifC17Keywords() {
	kw := []string{"BEGIN", "END", "function", "getline", "print", "printf", "in", "if", "while", "for", "do", "delete", "return", "next", "nextfile",
		"exit", "break", "continue", "else", "length", "substr", "split", "sprintf", "index", "match", "sub", "gsub", "tolower", "toupper", "sin", "cos", "atan2",
		"exp", "log", "sqrt", "int", "rand", "srand", "system", "close", "fflush"}
	i := verifIntRange(0, len(kw)-1)
	p := verifBuiltinInterp(false)
	err := p.initNativeFuncs(map[string]any{kw[i]: verifKInt})
	verifAssert(err != nil, "a Go function named like an AWK keyword or built-in was accepted at setup")
	// names that are not keywords are accepted, whatever the documented shape
	good := map[string]any{"begin": verifKInt, "Print": verifVarStr, "vb": verifGoodVariadicBytes, "_x1": verifErrFn, "none": verifNoResult}
	verifAssert(p.initNativeFuncs(good) == nil, "a function of a documented shape with an ordinary name was rejected")
	verifAssert(p.initNativeFuncs(verifC17Funcs()) == nil, "the documented shapes were rejected")
}
