package interp

// Field-wise havoc of the interpreter state (C14): the engine intercepts these by name; the
// bodies are the native replay semantics and consume replay values in the same order as the
// engine creates its symbolic inputs.

import (
	"bytes"
	"context"
	"io"
	"math"
	"reflect"
	"unsafe"
)

func verifNumFields(p *interp) int { return reflect.TypeOf(*p).NumField() }

func verifFieldName(p *interp, i int) string { return reflect.TypeOf(*p).Field(i).Name }

func verifSettable(v reflect.Value) reflect.Value {
	return reflect.NewAt(v.Type(), unsafe.Pointer(v.UnsafeAddr())).Elem()
}

var verifWriterType = reflect.TypeOf((*io.Writer)(nil)).Elem()
var verifReaderType = reflect.TypeOf((*io.Reader)(nil)).Elem()
var verifCtxType = reflect.TypeOf((*context.Context)(nil)).Elem()

func verifHavocValue(t reflect.Type, depth int) reflect.Value {
	v := reflect.New(t).Elem()
	switch t.Kind() {
	case reflect.Bool:
		v.SetBool(verifNext() != 0)
	case reflect.String:
		v.SetString(string([]byte{byte(verifNext())}))
	case reflect.Float32, reflect.Float64:
		v.SetFloat(math.Float64frombits(verifNext()))
	case reflect.Int, reflect.Int8, reflect.Int16, reflect.Int32, reflect.Int64:
		v.SetInt(int64(verifNext()))
	case reflect.Uint, reflect.Uint8, reflect.Uint16, reflect.Uint32, reflect.Uint64, reflect.Uintptr:
		v.SetUint(verifNext())
	case reflect.Struct:
		if depth > 0 {
			for i := 0; i < t.NumField(); i++ {
				verifSettable(v.Field(i)).Set(verifHavocValue(t.Field(i).Type, depth-1))
			}
		}
	case reflect.Array:
		for i := 0; i < t.Len(); i++ {
			v.Index(i).Set(verifHavocValue(t.Elem(), depth-1))
		}
	case reflect.Slice:
		s := reflect.MakeSlice(t, 1, 1)
		if depth-1 >= 0 {
			s.Index(0).Set(verifHavocValue(t.Elem(), depth-1))
		}
		v.Set(s)
	case reflect.Map:
		m := reflect.MakeMap(t)
		k, e := reflect.New(t.Key()).Elem(), reflect.New(t.Elem()).Elem()
		if depth-1 >= 0 {
			k = verifHavocValue(t.Key(), depth-1)
			e = verifHavocValue(t.Elem(), depth-1)
		}
		m.SetMapIndex(k, e)
		v.Set(m)
	case reflect.Ptr:
		v.Set(reflect.New(t.Elem()))
	case reflect.Interface:
		switch {
		case t == verifWriterType:
			v.Set(reflect.ValueOf(&bytes.Buffer{}))
		case t == verifReaderType:
			v.Set(reflect.ValueOf(bytes.NewReader(nil)))
		case t == verifCtxType:
			v.Set(reflect.ValueOf(context.Background()))
		}
	case reflect.Chan:
		v.Set(reflect.MakeChan(reflect.ChanOf(reflect.BothDir, t.Elem()), 0).Convert(t))
	}
	return v
}

// verifHavocField overwrites field i of p with an arbitrary "dirty" value
func verifHavocField(p *interp, i int) {
	f := verifSettable(reflect.ValueOf(p).Elem().Field(i))
	f.Set(verifHavocValue(f.Type(), 1))
}

func verifSameObservable(a, b reflect.Value) bool {
	switch a.Kind() {
	case reflect.Slice:
		if a.Len() != b.Len() {
			return false
		}
		for i := 0; i < a.Len(); i++ {
			if !verifSameObservable(a.Index(i), b.Index(i)) {
				return false
			}
		}
		return true
	case reflect.Map:
		if a.Len() != b.Len() {
			return false
		}
		for _, k := range a.MapKeys() {
			bv := b.MapIndex(k)
			if !bv.IsValid() || !verifSameObservable(a.MapIndex(k), bv) {
				return false
			}
		}
		return true
	case reflect.Struct:
		for i := 0; i < a.NumField(); i++ {
			if !verifSameObservable(a.Field(i), b.Field(i)) {
				return false
			}
		}
		return true
	case reflect.Array:
		for i := 0; i < a.Len(); i++ {
			if !verifSameObservable(a.Index(i), b.Index(i)) {
				return false
			}
		}
		return true
	case reflect.Ptr:
		if a.IsNil() != b.IsNil() {
			return false
		}
		if a.IsNil() {
			return true
		}
		if a.Elem().Kind() == reflect.Struct && a.Elem().NumField() > 0 && !a.Elem().Type().Field(0).IsExported() {
			return true // foreign object (scanner, regexp, rand): identity is not observable
		}
		return verifSameObservable(a.Elem(), b.Elem())
	case reflect.Interface, reflect.Func, reflect.Chan:
		return a.IsNil() == b.IsNil()
	case reflect.Float32, reflect.Float64:
		x, y := a.Float(), b.Float()
		return math.Float64bits(x) == math.Float64bits(y) || (x != x && y != y)
	case reflect.Bool:
		return a.Bool() == b.Bool()
	case reflect.String:
		return a.String() == b.String()
	case reflect.Int, reflect.Int8, reflect.Int16, reflect.Int32, reflect.Int64:
		return a.Int() == b.Int()
	case reflect.Uint, reflect.Uint8, reflect.Uint16, reflect.Uint32, reflect.Uint64, reflect.Uintptr:
		return a.Uint() == b.Uint()
	}
	return true
}

// verifFieldSame reports whether field i has the same observable value in p and q
// (an empty container equals a nil one)
func verifFieldSame(p, q *interp, i int) bool {
	return verifSameObservable(reflect.ValueOf(p).Elem().Field(i), reflect.ValueOf(q).Elem().Field(i))
}
