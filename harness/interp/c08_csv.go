package interp

import (
	"bytes"
	"encoding/csv"
	"io"

	"github.com/benhoyt/goawk/internal/ast"
)

// C08 — CSV/TSV input against the real encoding/csv.Reader (executed by the
// engine on the same symbolic bytes), $0 = the record's own bytes, BOM,
// chunk independence, and the write-then-read round trip.

type verifCSVRow struct {
	fields []string
	tok    string
}

// verifScanCSV drives newScanner (CSV mode) + real bufio.Scanner over a 2-chunk reader
func verifScanCSV(cfg CSVInputConfig, data []byte, k int) (rows []verifCSVRow, names []string) {
	p := &interp{inputMode: CSVMode, csvInputConfig: cfg}
	p.arrays = make([]map[string]value, 1)
	p.arrays[0] = map[string]value{}
	p.arrayIndexes = map[string]int{"FIELDS": 0}
	r := &verifChunkReader{chunks: [][]byte{data[:k], data[k:]}}
	sc := p.newScanner(r, make([]byte, 16))
	for sc.Scan() {
		row := make([]string, len(p.csvFields))
		copy(row, p.csvFields)
		rows = append(rows, verifCSVRow{row, sc.Text()})
	}
	return rows, p.fieldNames
}

type verifRefRow struct {
	fields   []string
	from, to int // byte range of the record (incl. skipped lines before it and its terminator) in the BOM-less data
}

func verifStripBOM(data []byte) []byte {
	if len(data) >= 3 && data[0] == 0xEF && data[1] == 0xBB && data[2] == 0xBF {
		return data[3:]
	}
	return data
}

// reference: the real encoding/csv reader, lenient quotes, any number of fields
func verifRefCSV(cfg CSVInputConfig, data []byte) (rows []verifRefRow) {
	rd := csv.NewReader(bytes.NewReader(data))
	rd.FieldsPerRecord = -1
	rd.LazyQuotes = true
	rd.Comma = cfg.Separator
	rd.Comment = cfg.Comment
	prev := 0
	for {
		row, err := rd.Read()
		if err != nil {
			if err != io.EOF {
				panic("reference csv reader failed: " + err.Error())
			}
			return
		}
		off := int(rd.InputOffset())
		rows = append(rows, verifRefRow{row, prev, off})
		prev = off
	}
}

func verifSameStrs(a, b []string) bool {
	if len(a) != len(b) {
		return false
	}
	for i := range a {
		if a[i] != b[i] {
			return false
		}
	}
	return true
}

func verifNoCR(b []byte) string {
	out := make([]byte, 0, len(b))
	for _, c := range b {
		if c != '\r' {
			out = append(out, c)
		}
	}
	return string(out)
}

func verifHasCR(b []byte) bool {
	for _, c := range b {
		if c == '\r' {
			return true
		}
	}
	return false
}

// compare one delivery of the input against the reference
func verifCheckCSV(cfg CSVInputConfig, data []byte, k int, what string) {
	got, names := verifScanCSV(cfg, data, k)
	body := verifStripBOM(data)
	want := verifRefCSV(cfg, body)
	if cfg.Header {
		if len(want) > 0 {
			verifAssert(verifSameStrs(names, want[0].fields), what+"header names differ from the first record of an RFC 4180 reader")
			want = want[1:]
		} else {
			verifAssert(len(names) == 0, what+"header names set although the input has no record")
		}
	}
	verifReach("csv-compared")
	verifAssert(len(got) == len(want), what+"number of records differs from an RFC 4180 reader (lenient quotes)")
	if len(got) != len(want) {
		return
	}
	hasCR := verifHasCR(body)
	for i := range got {
		verifAssert(verifSameStrs(got[i].fields, want[i].fields), what+"fields differ from an RFC 4180 reader (lenient quotes)")
		// $0 = the record's own text without its line terminator
		rec := body[want[i].from:want[i].to]
		rec = rec[:len(rec)-lenNewline(rec)]
		tok := got[i].tok
		recs := string(rec)
		if hasCR {
			// CRs inside quoted multi-line fields are removed by design; a lone CR before EOF is dropped "for
			// backwards compatibility": compare modulo CR so the oracle does not over-demand
			recs = verifNoCR(rec)
			tok = verifNoCR([]byte(tok))
		}
		ok := len(tok) <= len(recs) && recs[len(recs)-len(tok):] == tok &&
			(len(tok) == len(recs) || recs[len(recs)-len(tok)-1] == '\n')
		verifAssert(ok, what+"$0 is not the record's own text (it must end where the record ends and start at a line start inside it)")
	}
}

func VerifC08Comma() {
	n := verifIntRange(0, verifBound(4, 6))
	data := verifBytes(n)
	cfg := CSVInputConfig{Separator: ','}
	if verifIntRange(0, 1) == 1 {
		cfg.Comment = '#'
	}
	cfg.Header = verifIntRange(0, 1) == 1
	verifCheckCSV(cfg, data, n, "CSV: ")
}

// every 2-chunk delivery must give what the single read gives (same splitter object across calls)
func VerifC08Chunk() {
	n := verifIntRange(0, verifBound(4, 6))
	data := verifBytes(n)
	k := verifIntRange(0, n)
	cfg := CSVInputConfig{Separator: ','}
	r1, _ := verifScanCSV(cfg, data, n)
	r2, _ := verifScanCSV(cfg, data, k)
	verifAssert(len(r1) == len(r2), "CSV: number of records depends on how the input is chunked")
	if len(r1) != len(r2) {
		return
	}
	for i := range r1 {
		verifAssert(verifSameStrs(r1[i].fields, r2[i].fields), "CSV: fields depend on how the input is chunked")
		verifAssert(r1[i].tok == r2[i].tok, "CSV: $0 depends on how the input is chunked")
	}
}

// a leading byte-order mark is ignored: BOM+body behaves as body, for every chunking
func VerifC08BOM() {
	n := verifIntRange(0, verifBound(3, 5))
	body := verifBytes(n)
	if n >= 3 {
		verifAssume(!(body[0] == 0xEF && body[1] == 0xBB && body[2] == 0xBF)) // only one leading BOM is ignored
	}
	data := append([]byte{0xEF, 0xBB, 0xBF}, body...)
	k := verifIntRange(0, n+3)
	cfg := CSVInputConfig{Separator: ','}
	cfg.Header = verifIntRange(0, 1) == 1
	r1, n1 := verifScanCSV(cfg, body, n)
	r2, n2 := verifScanCSV(cfg, data, k)
	verifAssert(verifSameStrs(n1, n2), "CSV: a leading BOM changes the header names")
	verifAssert(len(r1) == len(r2), "CSV: a leading BOM changes the number of records")
	if len(r1) != len(r2) {
		return
	}
	for i := range r1 {
		verifAssert(verifSameStrs(r1[i].fields, r2[i].fields), "CSV: a leading BOM changes the fields")
		verifAssert(r1[i].tok == r2[i].tok, "CSV: a leading BOM changes $0")
	}
}

// any valid ASCII separator and comment character
func VerifC08Separator() {
	sep := verifByte()
	com := verifByte()
	verifAssume(sep < 0x80 && com < 0x80)
	cfg := CSVInputConfig{Separator: rune(sep), Comment: rune(com)}
	verifAssume(validateCSVInputConfig(CSVMode, cfg) == nil)
	n := verifIntRange(0, verifBound(3, 5))
	data := verifBytes(n)
	verifCheckCSV(cfg, data, n, "CSV (any separator): ")
}

// TSV mode = tab separator, and a 2-byte separator character
func VerifC08WideSeparator() {
	cfg := CSVInputConfig{Separator: []rune{'\t', 'é'}[verifIntRange(0, 1)]}
	n := verifIntRange(0, verifBound(4, 5))
	data := verifBytes(n)
	k := verifIntRange(0, n)
	verifCheckCSV(cfg, data, k, "CSV (tab / 2-byte separator): ")
}

// write-then-read round trip: print in CSV output mode, read back with the same separator
func VerifC08RoundTrip() {
	nf := verifIntRange(1, verifBound(2, 3))
	fields := make([]string, nf)
	maxLen := 2
	if nf > 1 {
		maxLen = verifBound(1, 1) // three fields of up to two bytes did not finish in the thorough time limit
	}
	for i := range fields {
		fields[i] = verifString(verifIntRange(0, maxLen))
		for j := 0; j < len(fields[i]); j++ {
			verifAssume(fields[i][j] != '\r')
		}
	}
	sep := []rune{',', '\t', ';'}[verifIntRange(0, verifBound(1, 2))]
	p := &interp{outputMode: CSVMode, csvOutputConfig: CSVOutputConfig{Separator: sep}, outputFormat: "%.6g"}
	var out bytes.Buffer
	args := make([]value, nf)
	for i := range args {
		args[i] = str(fields[i])
	}
	err := p.printArgs(&out, args)
	verifAssert(err == nil, "CSV output: print failed")
	rows, _ := verifScanCSV(CSVInputConfig{Separator: sep}, out.Bytes(), out.Len())
	verifKnown("C08-single-empty-field", nf == 1 && fields[0] == "")
	verifAssert(len(rows) == 1 && verifSameStrs(rows[0].fields, fields), "CSV round trip: fields written by print are not read back as the same values")
	// $0 rebuilt in CSV output mode, then re-parsed by the CSV input mode (ensureFields with reparseCSV)
	q := &interp{outputMode: CSVMode, csvOutputConfig: CSVOutputConfig{Separator: sep}, inputMode: CSVMode, csvInputConfig: CSVInputConfig{Separator: sep}}
	q.line = q.joinFields(fields)
	q.reparseCSV = true
	q.haveFields = false
	q.ensureFields()
	verifAssert(verifSameStrs(q.fields, fields), "CSV round trip: $0 rebuilt in CSV output mode does not re-parse to the same fields")
}

// the round trip holds in every output mode reached through OUTPUTMODE assignments during the run
// (separator changes must take effect for quoting as well as for joining)
func VerifC08ModeSwitch() {
	modes := []string{"csv", "tsv", "csv separator=;", "tsv", "csv"}
	p := &interp{outputFormat: "%.6g", convertFormat: "%.6g", outputFieldSep: " ", outputRecordSep: "\n"}
	first := verifIntRange(0, 2)
	second := verifIntRange(0, len(modes)-1)
	verifAssert(p.setSpecial(ast.V_OUTPUTMODE, str(modes[first])) == nil, "OUTPUTMODE rejected")
	var sink bytes.Buffer
	verifAssert(p.printArgs(&sink, []value{str("w"), str("x,y\tz;")}) == nil, "print failed")
	verifAssert(p.setSpecial(ast.V_OUTPUTMODE, str(modes[second])) == nil, "OUTPUTMODE rejected")
	f1 := verifString(1)
	f2 := []string{",", "\t", ";", "a;b", "a,b", "a\tb"}[verifIntRange(0, 5)]
	verifAssume(f1[0] != '\r')
	var out bytes.Buffer
	verifAssert(p.printArgs(&out, []value{str(f1), str(f2)}) == nil, "print failed")
	rows, _ := verifScanCSV(CSVInputConfig{Separator: p.csvOutputConfig.Separator}, out.Bytes(), out.Len())
	verifAssert(len(rows) == 1 && verifSameStrs(rows[0].fields, []string{f1, f2}), "after OUTPUTMODE changed during the run, fields written by print are not read back as the same values")
	p.setLine("k", false)
	p.inputMode, p.csvInputConfig = CSVMode, CSVInputConfig{Separator: p.csvOutputConfig.Separator}
	verifAssert(p.setField(1, f1) == nil && p.setField(2, f2) == nil, "field assignment failed")
	q := &interp{inputMode: CSVMode, csvInputConfig: p.csvInputConfig}
	q.line, q.reparseCSV = p.getField(0).s, true
	q.ensureFields()
	verifAssert(verifSameStrs(q.fields, []string{f1, f2}), "after OUTPUTMODE changed during the run, a rebuilt $0 does not re-parse to the same fields")
}

// header mode through the public pipeline: @"name" is the cell of the column whose header is name (the last such
// column when a name repeats, empty when absent), record by record, and each input file has its own header
func VerifC08NamedFields() {
	cell := func() string {
		b := verifByte()
		verifAssume(b > ' ' && b < 0x7f && b != ',' && b != '"' && b != '#')
		return string([]byte{b})
	}
	h1, h2 := cell(), cell()
	a1, a2, b1, b2 := cell(), cell(), cell(), cell()
	file1 := h1 + "," + h2 + "\n" + a1 + "," + a2 + "\n" + b1 + "," + b2 + "\n"
	g1, g2, c1, c2 := cell(), cell(), cell(), cell()
	file2 := g2 + "," + g1 + "\n" + c1 + "," + c2 + "\n"
	fs := &verifFS{files: map[string][]byte{"f1": []byte(file1), "f2": []byte(file2)}}
	twoFiles := verifIntRange(0, 1) == 1
	args := []string{"f1"}
	if twoFiles {
		args = []string{"f1", "f2"}
	}
	src := `{ r = r @"x" ":" @"y" ":" @"nosuch" ":" NF ";" }`
	cfg := &Config{Stdin: bytes.NewReader(nil), Output: &bytes.Buffer{}, Error: &bytes.Buffer{}, Environ: []string{}, Args: args, OpenFile: fs.open,
		InputMode: CSVMode, CSVInput: CSVInputConfig{Header: true}}
	_, err, p := verifRunProgram(src, cfg, nil)
	verifAssert(err == nil, "run failed")
	look := func(name string, hs []string, cells []string) string {
		out := ""
		for i := range hs {
			if hs[i] == name {
				out = cells[i]
			}
		}
		return out
	}
	row := func(hs, cells []string) string {
		return look("x", hs, cells) + ":" + look("y", hs, cells) + "::2;"
	}
	want := row([]string{h1, h2}, []string{a1, a2}) + row([]string{h1, h2}, []string{b1, b2})
	if twoFiles {
		want += row([]string{g2, g1}, []string{c1, c2})
	}
	verifReach("compared")
	verifAssert(verifGlobal(p, "r").s == want, "@\"name\" is not the cell under the header of that name in the current file (last column of that name, empty when absent)")
}
