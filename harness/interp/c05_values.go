package interp

import (
	"bytes"
	"math"
	"strconv"
)

// C05 — number/string conversion and comparison typing.

// ---- independent reference: AWK numeric-string grammar (decimal, exponent, hex, inf/nan) ----

func verifIsBlank(c byte) bool {
	return c == ' ' || c == '\t' || c == '\n' || c == '\v' || c == '\f' || c == '\r'
}
func verifDigit(c byte) bool { return c >= '0' && c <= '9' }
func verifHexDigit(c byte) bool {
	return verifDigit(c) || (c >= 'a' && c <= 'f') || (c >= 'A' && c <= 'F')
}
func verifLower(c byte) byte {
	if c >= 'A' && c <= 'Z' {
		return c + 32
	}
	return c
}

// verifNumPrefix returns [start,end) of the longest leading numeric prefix of s (after blanks), and its
// kind: 0 none, 1 decimal, 2 hex (hasExp tells whether a p-exponent is present), 3 nan, 4 inf
func verifNumPrefix(s string) (start, end, kind int, hexExp bool) {
	i := 0
	for i < len(s) && verifIsBlank(s[i]) {
		i++
	}
	start = i
	if i < len(s) && (s[i] == '+' || s[i] == '-') {
		i++
	}
	if i+3 <= len(s) && verifLower(s[i]) == 'n' && verifLower(s[i+1]) == 'a' && verifLower(s[i+2]) == 'n' {
		return start, i + 3, 3, false
	}
	if i+3 <= len(s) && verifLower(s[i]) == 'i' && verifLower(s[i+1]) == 'n' && verifLower(s[i+2]) == 'f' {
		return start, i + 3, 4, false
	}
	if i+2 < len(s) && s[i] == '0' && (s[i+1] == 'x' || s[i+1] == 'X') {
		j := i + 2
		digits := 0
		for j < len(s) && verifHexDigit(s[j]) {
			j++
			digits++
		}
		if j < len(s) && s[j] == '.' {
			j++
		}
		for j < len(s) && verifHexDigit(s[j]) {
			j++
			digits++
		}
		if digits == 0 {
			return start, start, 0, false
		}
		e := j
		if j < len(s) && (s[j] == 'p' || s[j] == 'P') {
			j++
			if j < len(s) && (s[j] == '+' || s[j] == '-') {
				j++
			}
			if j < len(s) && verifDigit(s[j]) {
				for j < len(s) && verifDigit(s[j]) {
					j++
				}
				return start, j, 2, true
			}
		}
		return start, e, 2, false
	}
	j := i
	digits := 0
	for j < len(s) && verifDigit(s[j]) {
		j++
		digits++
	}
	if j < len(s) && s[j] == '.' {
		j++
	}
	for j < len(s) && verifDigit(s[j]) {
		j++
		digits++
	}
	if digits == 0 {
		return start, start, 0, false
	}
	e := j
	if j < len(s) && (s[j] == 'e' || s[j] == 'E') {
		j++
		if j < len(s) && (s[j] == '+' || s[j] == '-') {
			j++
		}
		if j < len(s) && verifDigit(s[j]) {
			for j < len(s) && verifDigit(s[j]) {
				j++
			}
			return start, j, 1, false
		}
	}
	return start, e, 1, false
}

func verifSameFloat(a, b float64) bool { return a == b || (a != a && b != b) }

// inf / nan spellings behind leading blanks and a sign, with a symbolic tail: same oracle on longer strings
func VerifC05PrefixInfNan() {
	b0, sign := verifByte(), verifByte()
	word := []string{"inf", "nan", "INF", "NaN", "infinity", "in", "na"}[verifIntRange(0, 6)]
	s := string([]byte{b0}) + string([]byte{sign}) + word + verifString(verifIntRange(0, 1))
	if verifIntRange(0, 1) == 1 {
		s = s[1:] // without the leading byte
	}
	got := parseFloatPrefix(s)
	start, end, kind, hexExp := verifNumPrefix(s)
	switch kind {
	case 0:
		verifAssert(got == 0, "prefix number: a string without a numeric prefix does not convert to 0")
	case 3:
		verifReach("nan")
		verifAssert(got != got, "prefix number: nan prefix does not convert to NaN")
	case 4:
		verifReach("inf")
		verifAssert(math.IsInf(got, 0) && (got < 0) == (s[start] == '-'), "prefix number: inf prefix does not convert to the signed infinity")
	default:
		txt := s[start:end]
		if kind == 2 && !hexExp {
			txt += "p0"
		}
		want, _ := strconv.ParseFloat(txt, 64)
		verifAssert(verifSameFloat(got, want), "prefix number: value differs from the value of the longest leading numeric prefix")
	}
}

// the value parseFloatPrefix returns is the value of the longest numeric prefix (0 if none)
func VerifC05Prefix() {
	n := verifIntRange(0, verifBound(3, 5))
	s := verifString(n)
	got := parseFloatPrefix(s)
	start, end, kind, hexExp := verifNumPrefix(s)
	switch kind {
	case 0:
		verifAssert(got == 0, "prefix number: a string without a numeric prefix does not convert to 0")
	case 3:
		verifAssert(got != got, "prefix number: nan prefix does not convert to NaN")
	case 4:
		verifAssert(math.IsInf(got, 0) && (got < 0) == (s[start] == '-'), "prefix number: inf prefix does not convert to the signed infinity")
	default:
		txt := s[start:end]
		if kind == 2 && !hexExp {
			txt += "p0"
		}
		want, _ := strconv.ParseFloat(txt, 64)
		verifReach("numeric-prefix")
		verifAssert(verifSameFloat(got, want), "prefix number: value differs from the value of the longest leading numeric prefix")
	}
}

// a string that looks entirely like a number stands for one number in comparisons/truth tests and arithmetic
func VerifC05Agree() {
	n := verifIntRange(0, verifBound(3, 5))
	s := verifString(n)
	f, err := parseFloat(s)
	if err == nil {
		verifReach("looks-numeric")
		g := parseFloatPrefix(s)
		verifAssert(verifSameFloat(f, g), "the number a numeric-looking string stands for differs between comparison (whole-string parse) and arithmetic (prefix parse)")
		// truth test uses the same number
		verifAssert(numStr(s).boolean() == (g != 0), "truth value of a numeric string differs from (its number != 0)")
	} else {
		verifAssert(numStr(s).boolean() == (s != ""), "truth value of a non-numeric input string is not (s != \"\")")
	}
}

// integral numbers inside the int64 range print as exact integers, everything else through CONVFMT
func VerifC05IntFormat() {
	x := verifFloat64()
	s := num(x).str("%.6g")
	switch {
	case x != x:
		verifAssert(s == "nan", "NaN does not convert to \"nan\"")
	case math.IsInf(x, 1):
		verifAssert(s == "inf", "+Inf does not convert to \"inf\"")
	case math.IsInf(x, -1):
		verifAssert(s == "-inf", "-Inf does not convert to \"-inf\"")
	default:
		integral := math.Trunc(x) == x && x >= -9223372036854775808.0 && x < 9223372036854775808.0
		kind := verifOpaqueKind(s)
		verifAssert((kind == 1) == integral, "integer formatting is used for a number that is not an integer within the int64 range (or not used for one that is)")
		if kind == 1 {
			verifReach("integer-branch")
			verifAssert(float64(verifOpaqueInt(s)) == x, "the integer printed for an integral number is not exactly that number")
		}
	}
}

// ---- comparison typing and consistency through the real compiler and VM ----

var verifCmpOps = []string{"==", "!=", "<", "<=", ">", ">="}

func verifGoCmpStr(op int, a, b string) bool {
	switch op {
	case 0:
		return a == b
	case 1:
		return a != b
	case 2:
		return a < b
	case 3:
		return a <= b
	case 4:
		return a > b
	}
	return a >= b
}

func verifGoCmpNum(op int, a, b float64) bool {
	switch op {
	case 0:
		return a == b
	case 1:
		return a != b
	case 2:
		return a < b
	case 3:
		return a <= b
	case 4:
		return a > b
	}
	return a >= b
}

func verifRunCmp(src string, a, b value) (float64, bool) {
	prog := verifParse(src)
	p := newInterp(prog)
	p.globals[p.scalarIndexes["a"]] = a
	p.globals[p.scalarIndexes["b"]] = b
	if e := p.execute(prog.Compiled.Begin); e != nil {
		return 0, false
	}
	return p.globals[p.scalarIndexes["r"]].n, true
}

// kind: 0 null, 1 num, 2 str, 3 numeric-string (input derived)
func verifOperand(kind int, symbolicNum bool, maxLen int) value {
	switch kind {
	case 0:
		return null()
	case 1:
		if symbolicNum {
			return num(verifFloat64())
		}
		return num([]float64{0, 1, -1.5, 10}[verifIntRange(0, 3)])
	case 2:
		return str(verifString(verifIntRange(0, maxLen)))
	}
	return numStr(verifString(verifIntRange(0, maxLen)))
}

func verifRefTrueStr(v value) bool {
	switch v.typ {
	case typeStr:
		return true
	case typeNumStr:
		// looks entirely like a number: blanks, numeric prefix, blanks
		s := v.s
		_, end, kind, _ := verifNumPrefix(s)
		if kind == 0 {
			return true
		}
		if kind == 4 && end+5 <= len(s) && verifLower(s[end]) == 'i' && verifLower(s[end+1]) == 'n' && verifLower(s[end+2]) == 'i' && verifLower(s[end+3]) == 't' && verifLower(s[end+4]) == 'y' {
			end += 5
		}
		for end < len(s) && verifIsBlank(s[end]) {
			end++
		}
		return end != len(s)
	}
	return false
}

func verifC05Compare(ops []int, maxLen int, oneSided bool) {
	ka, kb := verifIntRange(0, 3), verifIntRange(0, 3)
	stringish := ka >= 2 || kb >= 2
	var a, b value
	if oneSided {
		// one operand is an input-derived string of up to maxLen bytes, the other one of four fixed values
		fixed := []value{null(), num(1), str("1"), numStr("1")}[kb]
		var long value
		if sp := verifIntRange(0, len(verifNumericSpellings)); sp < len(verifNumericSpellings) {
			// spellings of numbers longer than the byte bound: signs, exponents, hex, infinities and NaNs, blanks
			long = numStr(verifNumericSpellings[sp])
		} else {
			long = numStr(verifString(verifIntRange(0, maxLen)))
		}
		if ka%2 == 0 {
			a, b = long, fixed
		} else {
			a, b = fixed, long
		}
	} else {
		a = verifOperand(ka, !stringish, maxLen)
		b = verifOperand(kb, !stringish, maxLen)
	}
	strMode := verifRefTrueStr(a) || verifRefTrueStr(b)
	var res [6]bool
	for _, op := range ops {
		r, ok := verifRunCmp("BEGIN { r = (a "+verifCmpOps[op]+" b) }", a, b)
		res[op] = r == 1
		var want bool
		if strMode {
			want = verifGoCmpStr(op, a.str("%.6g"), b.str("%.6g"))
		} else {
			want = verifGoCmpNum(op, a.num(), b.num())
		}
		verifAssert(ok && (r == 0 || r == 1) && res[op] == want, "comparison "+verifCmpOps[op]+" does not follow the typing rule (numeric iff neither operand is a true string) with the operands' own numbers/strings")
		f, ok2 := verifRunCmp("BEGIN { if (a "+verifCmpOps[op]+" b) r = 1; else r = 0 }", a, b)
		verifKnown("C01-fused-nan", !strMode && (a.num() != a.num() || b.num() != b.num()))
		verifAssert(ok2 && (f == 1) == res[op], "fused compare-and-branch "+verifCmpOps[op]+" disagrees with the plain comparison")
	}
	if len(ops) < 6 {
		return
	}
	ok := res[1] == !res[0]
	if !strMode {
		x, y := a.num(), b.num()
		if x == x && y == y {
			n := 0
			if res[2] {
				n++
			}
			if res[0] {
				n++
			}
			if res[4] {
				n++
			}
			ok = ok && n == 1
		}
	}
	if strMode || (a.num() == a.num() && b.num() == b.num()) {
		ok = ok && res[3] == !res[4] && res[5] == !res[2]
	}
	verifAssert(ok, "the six comparison results are inconsistent (exactly one of <, ==, > for non-NaN numbers; != is not ==; <= is not >; >= is not <)")
}

// all six operators, short strings
var verifNumericSpellings = []string{"inf", "INF", "Infinity", "nan", "NaN", "+inf", "-nan", "+nan", "0x1A", "0X.8p1", "1e3", "1E+2", ".5e-1", "5.", " 12 ", "\t-3\n", "1e", "0x", "infinit", "nano", "1_0", "+-1", "1 2"}

// fields are numeric strings whatever happened to earlier records: the comparison mode of a field of the
// second record depends on its own text only, also after a field of the first record was assigned
func VerifC05FieldHistory() {
	f2 := verifString(verifIntRange(0, 2))
	for i := 0; i < len(f2); i++ {
		verifAssume(f2[i] != ' ' && f2[i] != '\t' && f2[i] != '\n' && f2[i] != '\r' && f2[i] != '\v' && f2[i] != '\f' && f2[i] < 0x80)
	}
	verifAssume(f2 != "")
	firsts := []string{`NR == 1 { $2 = "x" }`, `NR == 1 { $2 = "x"; $3 = "y"; NF = 1 }`, `NR == 1 { sub(/b/, "q", $2) }`, `NR == 1 { $0 = "p q"; $1 = "r" }`, `NR == 1 { n = $2 + 0 }`,
		`NR == 1 { $3 = "x"; NF = 2 }`, `NR == 1 { $4 = "x"; $2 = "y"; NF = 1; NF = 3 }`, `NR == 1 { $3 = "x"; $0 = "p" }`, `NR == 1 { $6 = "x"; NF = 2; $0 = "p q r s" }`, `NR == 1 { gsub(/[a-d]/, "z"); NF = 3 }`}
	src := firsts[verifIntRange(0, len(firsts)-1)] + ` NR == 2 { r = ($2 < 9); s = ($2 == 10); t = ($1 == 1.0); u = $2; r3 = ($3 < 9); s3 = ($3 == 10); r4 = ($4 < 9); s4 = ($4 == 10) }`
	input := []byte("a b c d\n1 " + f2 + " " + f2 + " " + f2 + "\n")
	cfg := &Config{Stdin: bytes.NewReader(input), Output: &bytes.Buffer{}, Error: &bytes.Buffer{}, Environ: []string{}}
	_, err, p := verifRunProgram(src, cfg, nil)
	verifAssert(err == nil, "run failed")
	fv := numStr(f2)
	strMode := verifRefTrueStr(fv)
	var wantR, wantS bool
	if strMode {
		wantR, wantS = f2 < "9", f2 == "10"
	} else {
		wantR, wantS = fv.num() < 9, fv.num() == 10
	}
	verifReach("second-record")
	verifAssert((verifGlobal(p, "r").n == 1) == wantR && (verifGlobal(p, "s").n == 1) == wantS && verifGlobal(p, "t").n == 1,
		"a field of a later record is compared as a string (or number) because of what was done to an earlier record")
	verifAssert((verifGlobal(p, "r3").n == 1) == wantR && (verifGlobal(p, "s3").n == 1) == wantS && (verifGlobal(p, "r4").n == 1) == wantR && (verifGlobal(p, "s4").n == 1) == wantS,
		"a later field of a later record is compared as a string (or number) because of what was done to an earlier record")
}

func VerifC05Compare() { verifC05Compare([]int{0, 1, 2, 3, 4, 5}, verifBound(1, 1), false) } // longer operands: VerifC05Typing

// the typing rule on longer strings (blanks, signs, exponents), operators == and <
func VerifC05Typing() { verifC05Compare([]int{0, 2}, verifBound(2, 3), true) }

// a < b iff b > a (operands swapped), on the same pair
func VerifC05Swap() {
	ka, kb := verifIntRange(0, 3), verifIntRange(0, 3)
	stringish := ka >= 2 || kb >= 2
	a := verifOperand(ka, !stringish, verifBound(1, 2))
	b := verifOperand(kb, !stringish, verifBound(1, 2))
	lt, _ := verifRunCmp("BEGIN { r = (a < b) }", a, b)
	gt, _ := verifRunCmp("BEGIN { r = (a > b) }", b, a)
	le, _ := verifRunCmp("BEGIN { r = (a <= b) }", a, b)
	ge, _ := verifRunCmp("BEGIN { r = (a >= b) }", b, a)
	verifAssert(lt == gt && le == ge, "a < b differs from b > a, or a <= b from b >= a")
}
