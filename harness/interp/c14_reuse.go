package interp

import (
	"bytes"
	"strings"
)

// C14 — a reused interpreter behaves like a fresh one.  One inductive step from an arbitrary
// prior state: each field of the interpreter in turn is overwritten with an arbitrary value
// (the over-approximation of "whatever ran before"), the real reset sequence of Execute runs,
// and every field must equal that of a newly created interpreter configured the same way.
// The list of fields is read from the type at run time, so a field added later is covered.

// fields whose difference is not observable by a program, each with its argument
var verifUnobservable = map[string]string{
	"stack":            "contents above sp are dead at top level (sp is compared)",
	"frame":            "only meaningful inside a call; callDepth and localArrays are compared",
	"regexCache":       "pure memo keyed by pattern text",
	"formatCache":      "pure memo keyed by format text",
	"inputBuffer":      "scratch buffer, written before it is read",
	"splitBuffer":      "scratch buffer, written before it is read",
	"csvJoinFieldsBuf": "scratch buffer, reset before use",
	"csvOutput":        "scratch writer, reset before use",
	"nativeFuncs":      "documented as fixed for the lifetime of the interpreter",
	"program":          "constant", "functions": "constant", "nums": "constant", "strs": "constant", "regexes": "constant",
	"scalarIndexes": "constant", "arrayIndexes": "constant",
	"random":     "generator object; its seed field randSeed is compared (ResetRand re-seeds it)",
	"reparseCSV": "at the start of a run the record is empty, so the re-parse it triggers yields the empty field list",
	"output":     "set from the configuration", "errorOutput": "set from the configuration", "stdin": "set from the configuration",
	"openFile": "set from the configuration",
	"ctx":      "set by ExecuteContext, ignored by Execute (checkCtx is compared)", "ctxDone": "as ctx", "ctxOps": "as ctx",
}

func verifReuseConfig() *Config {
	return &Config{Stdin: &bytes.Buffer{}, Output: &bytes.Buffer{}, Error: &bytes.Buffer{}, Environ: []string{}}
}

func verifReuse(withResetVars bool) {
	prog := verifParse(`BEGIN { x = 1; a[1] = 2 }`)
	p := newInterp(prog)
	q := newInterp(prog)
	i := verifIntRange(0, verifNumFields(p)-1)
	name := verifFieldName(p, i)
	if _, skip := verifUnobservable[name]; skip {
		return
	}
	if !withResetVars {
		// without ResetVars the program's variables, arrays and the special variables ResetVars names carry over
		switch name {
		case "globals", "arrays", "convertFormat", "outputFormat", "fieldSep", "fieldSepRegex", "savedFieldSep", "savedFieldSepRegex",
			"recordSep", "recordSepRegex", "outputFieldSep", "outputRecordSep", "subscriptSep", "randSeed":
			return
		}
	}
	switch name {
	case "globals":
		// representation invariant: one slot per global scalar; dirty every slot
		for k := range p.globals {
			p.globals[k] = str(verifString(1))
		}
	case "arrays":
		// representation invariant: one map per global array (call frames restore the length); dirty every map
		for k := range p.arrays {
			p.arrays[k][verifString(1)] = num(1)
		}
	default:
		verifHavocField(p, i)
	}
	// the sequence Interpreter.Execute performs (plus ResetVars/ResetRand as the user is told to call them)
	if withResetVars {
		p.resetVars()
		p.randSeed = 1.0 // ResetRand (the generator object itself is opaque)
	}
	p.resetCore()
	p.checkCtx = false
	e1 := p.setExecuteConfig(verifReuseConfig())
	q.checkCtx = false
	e2 := q.setExecuteConfig(verifReuseConfig())
	verifAssert(e1 == nil && e2 == nil, "setExecuteConfig failed")
	verifReach("compared")
	verifKnown("C14-csv-header-names", name == "fieldNames" || name == "fieldIndexes")
	verifKnown("C14-rt-carried-over", name == "recordTerminator" && !withResetVars)
	verifAssert(verifFieldSame(p, q, i), "interpreter state survives into the next Execute: field "+name+" differs from a fresh interpreter")
}

func VerifC14Reset() { verifReuse(true) }

func VerifC14NoResetVars() { verifReuse(false) }

// behavioural probe for the state that is argued unobservable: after an ExecuteContext whose context has
// since been cancelled, a plain Execute must run commands and long loops as a fresh interpreter does
func VerifC14StaleContext() {
	prog := verifParse(`BEGIN { r = system("exit 3"); for (i = 0; i < 1200; i++) n++ }`)
	p := newInterp(prog)
	// what ExecuteContext leaves behind
	verifWithContext(p, true, verifIntRange(0, 1)*(checkContextOps-1))
	// what Execute does
	p.resetCore()
	p.checkCtx = false
	verifAssert(p.setExecuteConfig(&Config{Stdin: bytes.NewReader(nil), Output: &bytes.Buffer{}, Error: &bytes.Buffer{}, Environ: []string{}, ShellCommand: []string{"/bin/sh", "-c"}}) == nil, "config")
	if verifInEngine() {
		verifWaitStatus(3 << 8)
	}
	_, err := p.executeAll()
	verifAssert(err == nil && verifGlobal(p, "n").n == 1200, "a context left over from an earlier ExecuteContext interrupted a plain Execute")
	verifAssert(verifGlobal(p, "r").n == 3, "a context left over from an earlier ExecuteContext affected a command started by a plain Execute")
	if verifInEngine() {
		verifAssert(!strings.Contains(verifEventLog(), "commandcontext"), "a plain Execute started a command with the context of an earlier ExecuteContext")
	}
}
