package interp

import (
	"math"
)

// C01 — the compiler's shortcuts never change what a program does: each template T is
// run through the real parser/resolver/compiler and the real VM next to a de-optimised
// spelling T' (the optimisable node wrapped so that the shortcut does not fire) from the
// same symbolic initial state; final interpreter states must agree.  Primitive opcodes are
// also compared with a straight-line reference.

type verifEnv struct {
	vars map[string]value // initial globals
	rec  string           // current record ("" = none)
	nr   float64
}

func verifExecEnv(src string, env verifEnv) (*interp, error) {
	prog := verifParse(src)
	p := newInterp(prog)
	for name, v := range env.vars {
		if idx, ok := p.scalarIndexes[name]; ok {
			p.globals[idx] = v
		}
	}
	p.lineNum = num(env.nr)
	if env.rec != "" {
		p.setLine(env.rec, false)
	}
	err := p.execute(prog.Compiled.Begin)
	return p, err
}

func verifSameValue(a, b value) bool {
	return a.typ == b.typ && a.s == b.s && (a.n == b.n || (a.n != a.n && b.n != b.n))
}

func verifGlobal(p *interp, name string) value {
	if idx, ok := p.scalarIndexes[name]; ok {
		return p.globals[idx]
	}
	return null()
}

func verifArrayCell(p *interp, arr, key string) (value, bool) {
	idx, ok := p.arrayIndexes[arr]
	if !ok {
		return null(), false
	}
	v, have := p.arrays[idx][key]
	return v, have
}

// compare the observable state of two runs: named globals, one array, record, NR, error/no error
func verifSameOutcome(p1 *interp, e1 error, p2 *interp, e2 error, names []string, arr string, keys []string) bool {
	ok := (e1 == nil) == (e2 == nil)
	for _, n := range names {
		ok = ok && verifSameValue(verifGlobal(p1, n), verifGlobal(p2, n))
	}
	for _, k := range keys {
		v1, h1 := verifArrayCell(p1, arr, k)
		v2, h2 := verifArrayCell(p2, arr, k)
		ok = ok && h1 == h2 && verifSameValue(v1, v2)
	}
	ok = ok && p1.line == p2.line && len(p1.fields) == len(p2.fields) && verifSameValue(p1.lineNum, p2.lineNum)
	if len(p1.fields) == len(p2.fields) {
		for i := range p1.fields {
			ok = ok && p1.fields[i] == p2.fields[i]
		}
	}
	ok = ok && (e1 != nil || p1.sp == p2.sp)
	return ok
}

// symbolic operand: 0 any float64, 1 string of <= 1 byte, 2 numeric input string, 3 unset, 4 input text from a list
// of spellings that are special as numbers
func verifTagged(kind int) value {
	switch kind {
	case 4:
		return numStr([]string{"nan", "+nan", "NaN", "inf", "-inf", "0x10", " 1 ", "1e1", "+1", ".", "--1"}[verifIntRange(0, 10)])
	case 0:
		return num(verifFloat64())
	case 1:
		return str(verifString(verifIntRange(0, 1)))
	case 2:
		return numStr(verifString(verifIntRange(0, 1)))
	}
	return null()
}

func verifTaggedConcreteNum(kind int) value {
	if kind == 0 {
		return num([]float64{0, 1, -1.5, 10}[verifIntRange(0, 3)])
	}
	return verifTagged(kind)
}

// ---- fused compare-and-branch vs plain comparison, every control construct ----

func VerifC01Fused() {
	ops := []string{"==", "!=", "<", "<=", ">", ">="}
	op := ops[verifIntRange(0, 5)]
	shapes := [][2]string{
		{`BEGIN { r = 0; if (a OP b) r = 1 }`, `BEGIN { r = 0; if ((a OP b)) r = 1 }`},
		{`BEGIN { if (a OP b) r = 1; else r = 2 }`, `BEGIN { if ((a OP b)) r = 1; else r = 2 }`},
		{`BEGIN { while (a OP b) { n++; if (n >= 2) break }; r = n }`, `BEGIN { while ((a OP b)) { n++; if (n >= 2) break }; r = n }`},
		{`BEGIN { for (; a OP b; n++) { if (n >= 2) break }; r = n }`, `BEGIN { for (; (a OP b); n++) { if (n >= 2) break }; r = n }`},
		{`BEGIN { do { n++; if (n >= 2) break } while (a OP b); r = n }`, `BEGIN { do { n++; if (n >= 2) break } while ((a OP b)); r = n }`},
		{`BEGIN { r = (a OP b) ? 1 : 2 }`, `BEGIN { r = ((a OP b)) ? 1 : 2 }`},
		{`BEGIN { r = 0; if (!(a OP b)) r = 1 }`, `BEGIN { t = (a OP b); r = 0; if (!t) r = 1 }`},
		{`BEGIN { r = 0; if (a OP b && c) r = 1 }`, `BEGIN { r = 0; if ((a OP b) && c) r = 1 }`},
	}
	sh := shapes[verifIntRange(0, len(shapes)-1)]
	// operand tags: quick = one side always a number; thorough = all 16 tag pairs
	ka, kb := verifIntRange(0, 3), verifIntRange(0, verifBound(0, 3))
	if verifIntRange(0, 1) == 1 {
		ka, kb = kb, ka
	}
	var va, vb value
	if ka == 1 || kb == 1 || ka == 2 || kb == 2 {
		// a string-mode comparison prints its numeric operand: keep that number concrete (its text is opaque otherwise)
		va, vb = verifTaggedConcreteNum(ka), verifTaggedConcreteNum(kb)
	} else {
		va, vb = verifTagged(ka), verifTagged(kb)
	}
	env := verifEnv{vars: map[string]value{"a": va, "b": vb, "c": num(1)}}
	src1 := verifReplaceOP(sh[0], op)
	src2 := verifReplaceOP(sh[1], op)
	p1, e1 := verifExecEnv(src1, env)
	p2, e2 := verifExecEnv(src2, env)
	an, bn := env.vars["a"].num(), env.vars["b"].num()
	_, aStr := env.vars["a"].isTrueStr()
	_, bStr := env.vars["b"].isTrueStr()
	verifKnown("C01-fused-nan", !aStr && !bStr && (an != an || bn != bn))
	verifReach("compared")
	verifAssert(verifSameOutcome(p1, e1, p2, e2, []string{"r", "n", "a", "b"}, "", nil), "a fused compare-and-branch condition behaves differently from the same comparison evaluated as an expression")
}

// the same with both operands input text whose spelling is special as a number (nan, inf, hex, signs, blanks)
func VerifC01FusedSpecial() {
	ops := []string{"==", "!=", "<", "<=", ">", ">="}
	op := ops[verifIntRange(0, 5)]
	shapes := [][2]string{
		{`BEGIN { if (a OP b) r = 1; else r = 2 }`, `BEGIN { if ((a OP b)) r = 1; else r = 2 }`},
		{`BEGIN { while (a OP b) { n++; if (n >= 2) break }; r = n }`, `BEGIN { while ((a OP b)) { n++; if (n >= 2) break }; r = n }`},
		{`BEGIN { r = (a OP b) ? 1 : 2 }`, `BEGIN { r = ((a OP b)) ? 1 : 2 }`},
		{`BEGIN { r = 0; if (!(a OP b)) r = 1 }`, `BEGIN { t = (a OP b); r = 0; if (!t) r = 1 }`},
	}
	sh := shapes[verifIntRange(0, len(shapes)-1)]
	va, vb := verifTagged(4), verifTagged(4)
	if verifIntRange(0, 2) == 0 {
		vb = va // the very same text on both sides
	}
	env := verifEnv{vars: map[string]value{"a": va, "b": vb}}
	p1, e1 := verifExecEnv(verifReplaceOP(sh[0], op), env)
	p2, e2 := verifExecEnv(verifReplaceOP(sh[1], op), env)
	verifReach("compared")
	verifAssert(verifSameOutcome(p1, e1, p2, e2, []string{"r", "n"}, "", nil), "a fused compare-and-branch condition on input text that is special as a number behaves differently from the same comparison evaluated as an expression")
}

func verifReplaceOP(tmpl, op string) string {
	out := ""
	for i := 0; i < len(tmpl); i++ {
		if i+2 <= len(tmpl) && tmpl[i:i+2] == "OP" {
			out += op
			i++
		} else {
			out += string([]byte{tmpl[i]})
		}
	}
	return out
}

func verifReplace(tmpl, key, with string) string {
	out := ""
	for i := 0; i < len(tmpl); {
		if i+len(key) <= len(tmpl) && tmpl[i:i+len(key)] == key {
			out += with
			i += len(key)
		} else {
			out += string([]byte{tmpl[i]})
			i++
		}
	}
	return out
}

// ---- statement-position shortcuts vs expression form, every lvalue kind ----

var verifForms = []string{"L = e", "L++", "++L", "L--", "--L", "L += e", "L -= e", "L *= e", "L /= e", "L %= e", "L ^= e"}

func VerifC01StmtExpr() {
	form := verifForms[verifIntRange(0, len(verifForms)-1)]
	// lvalue kinds: how L is spelled, and the program frame around the statement
	lv := verifIntRange(0, 6)
	var l, frame string
	switch lv {
	case 0: // global scalar
		l, frame = "x", `BEGIN { STMT }`
	case 1: // local scalar
		l, frame = "y", `function f(y, e) { STMT; return y } BEGIN { x = f(x, e) }`
	case 2: // special variable
		l, frame = "NR", `BEGIN { STMT; x = NR }`
	case 3: // global array element, constant key
		l, frame = `arr["k"]`, `BEGIN { arr["k"] = x; STMT; x = arr["k"] }`
	case 4: // global array element, computed key
		l, frame = `arr[k]`, `BEGIN { arr[k] = x; STMT; x = arr[k] }`
	case 5: // local array element
		l, frame = `la[k]`, `function f(la, e) { STMT } BEGIN { arr[k] = x; f(arr, e); x = arr[k] }`
	default: // array element with a side effect in the index: evaluated exactly once
		l, frame = `arr[k i++]`, `BEGIN { arr[k "0"] = x; STMT; x = arr[k "0"] }`
	}
	stmt := verifReplace(form, "L", l)
	t1 := verifReplace(frame, "STMT", stmt)
	t2 := verifReplace(frame, "STMT", "d = ("+stmt+")")
	x0 := verifTagged(verifIntRange(0, 3))
	e := verifTagged(verifIntRange(0, 1))
	env := verifEnv{vars: map[string]value{"x": x0, "e": e, "k": str(verifString(1)), "i": num(0)}}
	if lv == 2 {
		env.nr = x0.num()
	}
	p1, e1 := verifExecEnv(t1, env)
	p2, e2 := verifExecEnv(t2, env)
	verifReach("ran-both")
	verifAssert(verifSameOutcome(p1, e1, p2, e2, []string{"x", "e", "i"}, "", nil), "a statement-position assignment/increment/augmented assignment leaves a different state than the same expression used for its value")
	// reference for the numeric result
	if e1 == nil && lv != 2 {
		old := x0.num()
		en := e.num()
		got := verifGlobal(p1, "x")
		var want float64
		known := true
		switch form {
		case "L = e":
			verifAssert(verifSameValue(got, e) || (lv == 1 || lv == 5) && verifSameValue(got, e), "plain assignment does not store the right-hand value")
			known = false
		case "L++", "++L":
			want = old + 1
		case "L--", "--L":
			want = old - 1
		case "L += e":
			want = old + en
		case "L -= e":
			want = old - en
		case "L *= e":
			want = old * en
		case "L /= e":
			want = old / en
		default:
			known = false // % and ^ go through math.Mod / math.Pow (uninterpreted)
		}
		if known {
			verifAssert(got.typ == typeNum && (got.n == want || (got.n != got.n && want != want)), "increment/augmented assignment stores a value other than (old OP operand)")
		}
	}
}

// value of the expression forms: x++ yields the old number, ++x the new one, op= the new one
func VerifC01ExprValue() {
	x0 := num(verifFloat64())
	e := num(verifFloat64())
	env := verifEnv{vars: map[string]value{"x": x0, "e": e}}
	forms := []string{"x++", "++x", "x--", "--x", "x += e", "x -= e", "x *= e", "x = e"}
	fi := verifIntRange(0, len(forms)-1)
	p, err := verifExecEnv("BEGIN { d = ("+forms[fi]+") }", env)
	verifAssert(err == nil, "expression statement failed")
	d, x := verifGlobal(p, "d").n, verifGlobal(p, "x").n
	var wd, wx float64
	switch fi {
	case 0:
		wd, wx = x0.n, x0.n+1
	case 1:
		wd, wx = x0.n+1, x0.n+1
	case 2:
		wd, wx = x0.n, x0.n-1
	case 3:
		wd, wx = x0.n-1, x0.n-1
	case 4:
		wd, wx = x0.n+e.n, x0.n+e.n
	case 5:
		wd, wx = x0.n-e.n, x0.n-e.n
	case 6:
		wd, wx = x0.n*e.n, x0.n*e.n
	default:
		wd, wx = e.n, e.n
	}
	same := func(a, b float64) bool { return a == b || (a != a && b != b) }
	verifAssert(same(d, wd) && same(x, wx), "value or side effect of an increment/assignment expression is wrong (post forms yield the old value, pre forms and op= the new one)")
}

// ---- primitive opcodes against a straight-line reference ----

func VerifC01Arith() {
	a, b := verifFloat64(), verifFloat64()
	env := verifEnv{vars: map[string]value{"a": num(a), "b": num(b)}}
	exprs := []string{"a + b", "a - b", "a * b", "a / b", "-a", "+a", "!a", "a - b - 1", "a - (b - 1)", "a / b / 2", "2 - a", "a < b", "a && b", "a || b", "(a < b) + (a > b) + (a == b)"}
	ei := verifIntRange(0, len(exprs)-1)
	p, err := verifExecEnv("BEGIN { r = "+exprs[ei]+" }", env)
	bool2f := func(c bool) float64 {
		if c {
			return 1
		}
		return 0
	}
	var want float64
	switch ei {
	case 0:
		want = a + b
	case 1:
		want = a - b
	case 2:
		want = a * b
	case 3:
		if b == 0 {
			verifAssert(err != nil, "division by zero did not fail")
			return
		}
		want = a / b
	case 4:
		want = -a
	case 5:
		want = a
	case 6:
		want = bool2f(a == 0)
	case 7:
		want = a - b - 1
	case 8:
		want = a - (b - 1)
	case 9:
		if b == 0 {
			verifAssert(err != nil, "division by zero did not fail")
			return
		}
		want = a / b / 2
	case 10:
		want = 2 - a
	case 11:
		want = bool2f(a < b)
	case 12:
		want = bool2f(a != 0 && b != 0)
	case 13:
		want = bool2f(a != 0 || b != 0)
	default:
		want = bool2f(a < b) + bool2f(a > b) + bool2f(a == b)
	}
	verifAssert(err == nil, "arithmetic expression failed")
	r := verifGlobal(p, "r")
	verifAssert(r.typ == typeNum && (r.n == want || (r.n != r.n && want != want)), "an arithmetic/logical opcode computes something other than the operands combined in source order")
}

// concatenation: operand order, n-ary shortcut vs nested, and short-circuit evaluation
func VerifC01Concat() {
	a, b, c := verifString(verifIntRange(0, 1)), verifString(verifIntRange(0, 1)), verifString(verifIntRange(0, 1))
	env := verifEnv{vars: map[string]value{"a": str(a), "b": str(b), "c": str(c)}}
	progs := []string{
		`BEGIN { r = a b c }`, `BEGIN { r = (a b) c }`, `BEGIN { r = a (b c) }`, `BEGIN { r = a b c a b }`,
		`BEGIN { r = a b; r = r c }`,
	}
	want := []string{a + b + c, a + b + c, a + b + c, a + b + c + a + b, a + b + c}
	i := verifIntRange(0, len(progs)-1)
	p, err := verifExecEnv(progs[i], env)
	verifAssert(err == nil && verifGlobal(p, "r").s == want[i] && verifGlobal(p, "r").typ == typeStr, "concatenation (n-ary shortcut or nested) does not join the operands in source order")
	// && and || evaluate the right operand only when needed
	q, err2 := verifExecEnv(`BEGIN { r1 = (a != "" && n++); r2 = (a != "" || m++) }`, env)
	verifAssert(err2 == nil, "logical expression failed")
	if a == "" {
		verifAssert(verifGlobal(q, "n").n == 0 && verifGlobal(q, "m").n == 1, "&& / || evaluated (or skipped) the wrong operand")
	} else {
		verifAssert(verifGlobal(q, "n").n == 1 && verifGlobal(q, "m").n == 0, "&& / || evaluated (or skipped) the wrong operand")
	}
}

// ---- constant field / constant index shortcuts ----

func VerifC01FieldShortcuts() {
	rec := verifString(verifIntRange(0, verifBound(3, 4)))
	for i := 0; i < len(rec); i++ {
		verifAssume(rec[i] != '\v' && rec[i] != '\f' && rec[i] != '\r' && rec[i] < 0x80)
	}
	pairs := [][2]string{
		{`BEGIN { r = $1; s = $2; t = $0 }`, `BEGIN { r = $(1); s = $(2); t = $(0) }`},
		{`BEGIN { r = $NF; s = $(NF-1) }`, `BEGIN { k = NF; r = $(k); s = $(k-1) }`},
		{`BEGIN { $2 = "v"; r = $0 }`, `BEGIN { $(2) = "v"; r = $0 }`},
		{`BEGIN { arr[1] = "p"; r = arr[1]; s = (1 in arr) }`, `BEGIN { arr[(1)] = "p"; r = arr["1"]; s = ("1" in arr) }`},
		{`BEGIN { r = sub(/a/, "b", $1); s = $0 }`, `BEGIN { u = $1; r = sub(/a/, "b", u); if (r) $1 = u; s = $0 }`},
		// constants that do not fit the shortcut's operand must fall back to the general form
		{`BEGIN { r = $2147483648; s = $4294967297; t = $4294967296 }`, `BEGIN { i = 2147483648; j = 4294967297; k = 4294967296; r = $i; s = $j; t = $k }`},
		{`BEGIN { r = $1e10 "|" $-1 "|" $0.9 }`, `BEGIN { i = 1e10; j = -1; k = 0.9; r = $i "|" $j "|" $k }`},
		// constant subscripts name the same element as a variable holding the same number, whatever CONVFMT is
		{`BEGIN { CONVFMT = "%.2g"; arr[0.123456] = "p"; arr[12] = "q"; k = 0.123456; r = arr[k]; s = (k in arr); t = (0.123456 in arr) arr[12.0] }`,
			`BEGIN { CONVFMT = "%.2g"; k = 0.123456; n = 12; arr[k] = "p"; arr[n] = "q"; r = arr[k]; s = (k in arr); t = (k in arr) arr[n] }`},
		{`BEGIN { arr[1e6] = "m"; arr[16.0] = "h"; r = arr[1000000] arr[16]; s = (1e6 in arr) }`, `BEGIN { a = 1e6; b = 16; arr[a] = "m"; arr[b] = "h"; r = arr[a] arr[b]; s = (a in arr) }`},
	}
	pi := verifIntRange(0, len(pairs)-1)
	env := verifEnv{rec: rec, vars: map[string]value{}}
	if rec == "" {
		env.rec = " "
	}
	p1, e1 := verifExecEnv(pairs[pi][0], env)
	p2, e2 := verifExecEnv(pairs[pi][1], env)
	verifAssert(verifSameOutcome(p1, e1, p2, e2, []string{"r", "s", "t"}, "", nil), "a constant field/array-index shortcut behaves differently from the general form")
}

// ---- loops, break/continue, for-in ----

func VerifC01Loops() {
	n := verifIntRange(0, verifBound(2, 3)) // trip count
	brk := verifIntRange(0, 3)              // iteration at which a break / continue happens (3 = never)
	env := verifEnv{vars: map[string]value{"n": num(float64(n)), "k": num(float64(brk))}}
	progs := []string{
		`BEGIN { for (i = 0; i < n; i++) { if (i == k) break; c++ } }`,
		`BEGIN { for (i = 0; i < n; i++) { if (i == k) continue; c++ } }`,
		`BEGIN { i = 0; while (i < n) { if (i == k) { i++; continue }; c++; i++ } }`,
		`BEGIN { i = 0; do { if (i == k) break; c++; i++ } while (i < n) }`,
		`BEGIN { for (i = 0; i < n; i++) for (j = 0; j < n; j++) { if (j == k) break; c++ } }`,
		`BEGIN { for (i = 0; i < n; i++) arr[i] = 1; for (x in arr) { if (c == k) break; c++ } }`,
		`BEGIN { for (i = 0; i < n; i++) arr[i] = 1; for (x in arr) { v++; if (v - 1 == k) continue; c++ } }`,
	}
	pi := verifIntRange(0, len(progs)-1)
	p, err := verifExecEnv(progs[pi], env)
	verifAssert(err == nil, "loop program failed")
	c := 0
	switch pi {
	case 0:
		for i := 0; i < n; i++ {
			if i == brk {
				break
			}
			c++
		}
	case 1, 2:
		for i := 0; i < n; i++ {
			if i == brk {
				continue
			}
			c++
		}
	case 3:
		i := 0
		for {
			if i == brk {
				break
			}
			c++
			i++
			if !(i < n) {
				break
			}
		}
	case 4:
		for i := 0; i < n; i++ {
			for j := 0; j < n; j++ {
				if j == brk {
					break
				}
				c++
			}
		}
	case 5:
		for i := 0; i < n; i++ {
			if c == brk {
				break
			}
			c++
		}
	default:
		for v := 0; v < n; v++ {
			if v == brk {
				continue
			}
			c++
		}
	}
	verifAssert(verifGlobal(p, "c").n == float64(c), "a loop with break/continue runs its body a different number of times than the source says")
	verifAssert(p.sp == 0, "the operand stack is not empty after the loop")
}

// ---- user calls: missing arguments, by-reference arrays, by-value scalars, recursion, fresh locals ----

func VerifC01Calls() {
	a := num(verifFloat64())
	env := verifEnv{vars: map[string]value{"a": a}}
	progs := []string{
		`function f(x, y) { x = x + 1; return y } BEGIN { r = f(a); s = a }`,                                                  // missing arg is null; scalar by value
		`function f(arr, v) { arr["k"] = v } BEGIN { f(g, a); r = g["k"] }`,                                                   // array by reference
		`function f(n,  loc) { if (n > 0) { loc[n] = 1; f(n - 1) }; c = 0; for (k in loc) c++; return c } BEGIN { r = f(2) }`, // fresh local array per call
		`function f(n) { if (n <= 0) return a; return f(n - 1) } BEGIN { r = f(3) }`,                                          // recursion returns through frames
		`function f(x) { x[1] = a } function g(y) { f(y) } BEGIN { g(arr); r = arr[1] }`,                                      // array forwarded through two calls
		`function f(x, y, z) { return x } BEGIN { r = f(a, 1) ; s = f() }`,                                                    // fewer arguments than parameters
	}
	pi := verifIntRange(0, len(progs)-1)
	p, err := verifExecEnv(progs[pi], env)
	verifAssert(err == nil, "call program failed")
	r := verifGlobal(p, "r")
	s := verifGlobal(p, "s")
	switch pi {
	case 0:
		verifAssert(r.typ == typeNull && verifSameValue(s, a), "a missing argument is not null, or a scalar argument was modified by the callee")
	case 1, 4:
		verifAssert(verifSameValue(r, a), "an array argument is not shared by reference")
	case 2:
		verifAssert(r.n == 1, "a local array is not fresh for each call")
	case 3:
		verifAssert(verifSameValue(r, a), "a value returned through recursive calls was changed")
	default:
		verifAssert(verifSameValue(r, a) && s.typ == typeNull, "calling with fewer arguments than parameters misbehaves")
	}
	verifAssert(p.sp == 0 && len(p.localArrays) == 0 && p.callDepth == 0, "call frames are not unwound (stack, local arrays or depth left over)")
	_ = math.Trunc
}
