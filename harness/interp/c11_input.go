package interp

import (
	"bytes"
	"os"
)

// C11 — input bookkeeping on small whole runs: real executeAll / execActions / nextLine /
// getline opcodes, real bufio.Scanner, files served by the in-engine file model through
// Config.OpenFile; operands and control decisions are case split, file contents symbolic.

type verifFS struct {
	files map[string][]byte
}

func (fs *verifFS) open(name string, flag int, perm os.FileMode) (*os.File, error) {
	c, ok := fs.files[name]
	if !ok {
		return nil, os.ErrNotExist
	}
	return verifNewFile(c), nil
}

// lines of a file the way RS="\n" reads them (reference)
func verifLines(data []byte) []string {
	var out []string
	start := 0
	for i := 0; i <= len(data); i++ {
		if i == len(data) || data[i] == '\n' {
			if i == len(data) && start == len(data) {
				break
			}
			line := data[start:i]
			if len(line) > 0 && line[len(line)-1] == '\r' {
				line = line[:len(line)-1]
			}
			out = append(out, string(line))
			start = i + 1
		}
	}
	return out
}

func verifItoa2(i int) string { return verifItoa(i) }

// operand walk: left to right, var=value applied when reached, empty skipped, stdin only if no file operand
func VerifC11Operands() {
	nargs := verifIntRange(0, verifBound(2, 3))
	kinds := []string{"", "-", "v=1", "f1", "f2", "v=2", "ARGC=1", "ARGC=2", "ARGC=3"}
	var args []string
	for i := 0; i < nargs; i++ {
		args = append(args, kinds[verifIntRange(0, len(kinds)-1)])
	}
	maxLen := verifBound(2, 2)
	fs := &verifFS{files: map[string][]byte{"f1": verifBytes(verifIntRange(0, maxLen)), "f2": verifBytes(verifIntRange(0, 1))}}
	stdin := verifBytes(verifIntRange(0, 1))
	src := `{ t = t FILENAME ":" NR ":" FNR ":" v ":" $0 ";" } END { t = t "E" NR ":" v }`
	cfg := &Config{Stdin: bytes.NewReader(stdin), Output: &bytes.Buffer{}, Error: &bytes.Buffer{}, Environ: []string{}, Args: args, OpenFile: fs.open}
	st, err, p := verifRunProgram(src, cfg, nil)
	verifAssert(err == nil && st == 0, "run failed")
	// reference walk
	want := ""
	nr := 0
	v := ""
	hadFile := false
	emit := func(fname string, data []byte) {
		for i, line := range verifLines(data) {
			nr++
			want += fname + ":" + verifItoa(nr) + ":" + verifItoa(i+1) + ":" + v + ":" + line + ";"
		}
	}
	limit := len(args) // operands ARGV[1..ARGC-1] are processed; an ARGC=n operand takes effect when it is reached
	for i, a := range args {
		if i >= limit {
			break
		}
		switch a {
		case "":
		case "ARGC=1":
			limit = 0
		case "ARGC=2":
			limit = 1
		case "ARGC=3":
			limit = 2
		case "-":
			hadFile = true
			emit("-", stdin)
			stdin = nil // standard input is consumed once
		case "v=1":
			v = "1"
		case "v=2":
			v = "2"
		default:
			hadFile = true
			emit(a, fs.files[a])
		}
	}
	if !hadFile {
		emit("-", stdin)
	}
	want += "E" + verifItoa(nr) + ":" + v
	verifReach("walked")
	verifAssert(verifGlobal(p, "t").s == want, "the per-record trace (FILENAME, NR, FNR, var=value state, $0) differs from the operand walk of the property")
}

// getline frame conditions, default and CSV input mode
func VerifC11Getline() {
	csv := verifIntRange(0, 1) == 1
	main := verifBytes(verifIntRange(1, 2))
	other := verifBytes(verifIntRange(1, 2))
	for _, b := range append(append([]byte{}, main...), other...) {
		// keep records simple: no quotes/CR in CSV mode so that $0 and fields have an obvious reference
		verifAssume(b != '"' && b != '\r' && b != '\n' && b != 0xEF && b != '#')
	}
	main = append(main, '\n', 'z', '\n')
	other = append(other, '\n')
	fs := &verifFS{files: map[string][]byte{"o": other}}
	forms := []string{
		`getline x < "o"`,  // only x
		`getline x`,        // x, NR, FNR
		`getline < "o"`,    // $0, NF
		`getline`,          // $0, NF, NR, FNR
		`getline $2 < "o"`, // only field 2 (and with it $0 and NF), not NR/FNR
		`getline $2`,       // field 2, NR, FNR
	}
	fi := verifIntRange(0, len(forms)-1)
	src := `NR == 1 { b0 = $0; b1 = $1; bn = NF; bnr = NR; bfnr = FNR; ret = (` + forms[fi] + `); a0 = $0; a1 = $1; a2 = $2; an = NF; anr = NR; afnr = FNR; exit }`
	cfg := &Config{Stdin: bytes.NewReader(main), Output: &bytes.Buffer{}, Error: &bytes.Buffer{}, Environ: []string{}, OpenFile: fs.open}
	if csv {
		cfg.InputMode = CSVMode
	}
	_, err, p := verifRunProgram(src, cfg, nil)
	verifAssert(err == nil, "run failed")
	g := func(n string) value { return verifGlobal(p, n) }
	same := func(a, b string) bool { return g(a).s == g(b).s && g(a).n == g(b).n }
	verifReach("ran")
	verifKnown("C11-csv-getline-overwrites-fields", csv && (fi == 0 || fi == 1))
	switch fi {
	case 0:
		verifAssert(same("b0", "a0") && same("b1", "a1") && same("bn", "an"), "getline var < file changed $0, a field or NF")
		verifAssert(same("bnr", "anr") && same("bfnr", "afnr"), "getline var < file changed NR or FNR")
	case 1:
		verifAssert(same("b0", "a0") && same("b1", "a1") && same("bn", "an"), "getline var changed $0, a field or NF")
		verifAssert(g("anr").n == g("bnr").n+1 && g("afnr").n == g("bfnr").n+1 && g("x").s == "z", "getline var must read the next main-input record into var and count it in NR and FNR")
	case 2:
		verifAssert(same("bnr", "anr") && same("bfnr", "afnr"), "getline < file changed NR or FNR")
		verifAssert(g("a0").s == verifLines(other)[0], "getline < file did not set $0 to the file's first record")
	case 3:
		verifAssert(g("anr").n == g("bnr").n+1 && g("afnr").n == g("bfnr").n+1 && g("a0").s == "z", "plain getline must read the next record into $0 and count it in NR and FNR")
	default:
		// getline $2 [< file]: the line goes into field 2 only; $1 keeps its value, NF is at least 2
		if !csv {
			verifAssert(same("b1", "a1") && g("an").n >= 2, "getline $2 must assign field 2 and leave the other fields alone")
			p2 := verifGlobal(p, "a2")
			want := "z"
			if fi == 4 {
				want = verifLines(other)[0]
			}
			verifAssert(p2.s == want, "getline $2 did not store the line that was read in field 2")
		}
		if fi == 4 {
			verifAssert(same("bnr", "anr") && same("bfnr", "afnr"), "getline $2 < file changed NR or FNR")
		} else {
			verifAssert(g("anr").n == g("bnr").n+1 && g("afnr").n == g("bfnr").n+1, "getline $2 must count the record in NR and FNR")
		}
	}
	verifAssert(p.sp == 0, "a getline form left operands on the VM stack")
	verifAssert(g("ret").n == 1, "getline did not return 1 on success")
}

// range patterns: from a record matching the first pattern through the next record matching the second, inclusive
func VerifC11Range() {
	nrec := verifIntRange(1, 3)
	var data []byte
	recs := verifBytes(nrec)
	for _, b := range recs {
		verifAssume(b == 'a' || b == 'b' || b == 'c' || b == 'x')
		data = append(data, b, '\n')
	}
	// the range rules may sit behind many other rules (rule numbers up to and beyond 64)
	pad := []int{0, 62, 63, 64, 70}[verifIntRange(0, 4)]
	src := ""
	for i := 0; i < pad; i++ {
		src += "$0 == \"zz\" { z++ }\n"
	}
	src += `$0 == "a", $0 == "b" { s = s NR } $0 == "c", $0 == "c" { u = u NR } END { done = 1 }`
	cfg := &Config{Stdin: bytes.NewReader(data), Output: &bytes.Buffer{}, Error: &bytes.Buffer{}, Environ: []string{}}
	_, err, p := verifRunProgram(src, cfg, nil)
	verifAssert(err == nil, "run failed")
	ws, wu := "", ""
	in := false
	for i, b := range recs {
		if !in && b == 'a' {
			in = true
		}
		if in {
			ws += verifItoa(i + 1)
			if b == 'b' {
				in = false
			}
		}
		if b == 'c' {
			wu += verifItoa(i + 1) // opens and closes on the same record
		}
	}
	verifAssert(verifGlobal(p, "s").s == ws && verifGlobal(p, "u").s == wu, "range pattern selected a different set of records than the reference automaton")
}

// next / nextfile / exit, also from inside a function and a loop; END still runs; exit status is the last exit value
func VerifC11Control() {
	f1 := verifBytes(verifIntRange(1, 2))
	for _, b := range f1 {
		verifAssume(b == 'n' || b == 'f' || b == 'e' || b == 'k')
	}
	var d1 []byte
	for _, b := range f1 {
		d1 = append(d1, b, '\n')
	}
	fs := &verifFS{files: map[string][]byte{"f1": d1, "f2": []byte("k\n")}}
	src := `function g(c) { while (1) { if (c == "n") next; if (c == "f") nextfile; if (c == "e") exit 3; break } }
{ seen = seen $0; g($0); after = after $0 }
{ second = second $0 }
END { endrec = $0; endnf = NF; if (endx == 1) exit 5; if (endx == 2) exit 0; if (endx == 3) exit }`
	endx := verifIntRange(0, 3)
	cfg := &Config{Stdin: bytes.NewReader(nil), Output: &bytes.Buffer{}, Error: &bytes.Buffer{}, Environ: []string{}, Args: []string{"f1", "f2"}, OpenFile: fs.open,
		Vars: []string{"endx", verifItoa(endx)}}
	st, err, p := verifRunProgram(src, cfg, nil)
	verifAssert(err == nil, "run failed")
	seen, after, status := "", "", 0
	last := ""
	exited := false
	for _, b := range f1 {
		if exited {
			break
		}
		seen += string([]byte{b})
		last = string([]byte{b})
		if b == 'n' {
			continue
		}
		if b == 'f' {
			break
		}
		if b == 'e' {
			exited = true
			status = 3
			break
		}
		after += string([]byte{b})
	}
	if !exited {
		seen += "k"
		after += "k"
		last = "k"
	}
	if endx == 1 {
		status = 5
	}
	if endx == 2 {
		status = 0 // the last exit value wins, also when it is a literal 0
	}
	verifReach("ran")
	verifAssert(verifGlobal(p, "seen").s == seen && verifGlobal(p, "after").s == after && verifGlobal(p, "second").s == after,
		"next / nextfile / exit (called from inside a function and a loop) skipped the wrong rules, records or files")
	verifAssert(verifGlobal(p, "endrec").s == last && st == status, "END must still run after exit with $0 of the last record, and the exit status is the last exit value")
	verifAssert(p.callDepth == 0 && len(p.localArrays) == 0 && len(p.arrays) == len(p.arrayIndexes), "next / nextfile / exit from inside a function left call bookkeeping behind (call depth, local arrays)")
}

// several getline streams open at once, opened after another stream was closed: each delivers its own file's
// records in order, whatever the interleaving of the reads
func VerifC07GetlineStreams() {
	la, lb := verifBytes(3), verifBytes(2)
	for _, b := range append(append([]byte{}, la...), lb...) {
		verifAssume(b != '\n' && b != '\r')
	}
	var fa, fb []byte
	for _, b := range la {
		fa = append(fa, b, '\n')
	}
	for _, b := range lb {
		fb = append(fb, b, '\n')
	}
	fs := &verifFS{files: map[string][]byte{"f0": []byte("zero\n"), "A": fa, "B": fb}}
	orders := []string{
		`getline a1 < "A"; getline b1 < "B"; getline a2 < "A"; getline b2 < "B"; getline a3 < "A"`,
		`getline a1 < "A"; getline a2 < "A"; getline b1 < "B"; getline a3 < "A"; getline b2 < "B"`,
		`getline b1 < "B"; getline a1 < "A"; getline b2 < "B"; getline a2 < "A"; getline a3 < "A"`,
	}
	pre := []string{``, `getline x < "f0"; close("f0"); `, `getline x < "f0"; getline y < "A"; close("A"); close("f0"); `}[verifIntRange(0, 2)]
	src := `BEGIN { ` + pre + orders[verifIntRange(0, 2)] + ` }`
	cfg := &Config{Stdin: bytes.NewReader(nil), Output: &bytes.Buffer{}, Error: &bytes.Buffer{}, Environ: []string{}, OpenFile: fs.open}
	_, err, p := verifRunProgram(src, cfg, nil)
	verifAssert(err == nil, "run failed")
	g := func(n string) string { return verifGlobal(p, n).s }
	verifReach("read")
	verifAssert(g("a1") == string(la[:1]) && g("a2") == string(la[1:2]) && g("a3") == string(la[2:3]) && g("b1") == string(lb[:1]) && g("b2") == string(lb[1:2]),
		"interleaved getline streams did not each deliver their own file's records in order")
}

// many records abandoned through next / nextfile from inside a function: nothing accumulates from record to record
func VerifC11ManyRecords() {
	progs := []string{
		`function f() { n++; next } { f() } END { r = n ":" NR }`,
		`function f(d) { if (d > 0) f(d - 1); n++; next } { f(2) } END { r = n ":" NR }`,
		`function f() { n++; if (NR % 2) next; return 1 } { m += f() } END { r = n ":" NR ":" m }`,
		`function f() { n++; nextfile } { f() } END { r = n ":" NR }`,
	}
	pi := verifIntRange(0, len(progs)-1)
	var input []byte
	for i := 0; i < 1100; i++ {
		input = append(input, 'r', '\n')
	}
	cfg := &Config{Stdin: bytes.NewReader(input), Output: &bytes.Buffer{}, Error: &bytes.Buffer{}, Environ: []string{}}
	_, err, p := verifRunProgram(progs[pi], cfg, nil)
	verifAssert(err == nil, "a run over 1100 records that leaves a function through next failed")
	want := []string{"1100:1100", "1100:1100", "1100:1100:550", "1:1"}[pi]
	verifAssert(verifGlobal(p, "r").s == want, "records abandoned through next / nextfile from inside a function were not each processed once")
}

// operands changed by the program before they are reached: ARGV elements assigned numbers, strings, deleted, added
func VerifC11ArgvValues() {
	fs := &verifFS{files: map[string][]byte{"2024": []byte("y\n"), "f1": []byte("a\n"), "f2": []byte("b\n"), "3.5": []byte("h\n")}}
	begins := []string{
		`BEGIN { ARGV[1] = 2023 + 1 }`,                  // a number names the file 2024
		`BEGIN { ARGV[1] = "f2" }`,                      // replaced
		`BEGIN { delete ARGV[1] }`,                      // removed: skipped
		`BEGIN { ARGV[1] = "" }`,                        // emptied: skipped
		`BEGIN { ARGV[2] = "f2"; ARGC = 3 }`,            // appended
		`BEGIN { ARGV[1] = 7 / 2 }`,                     // a non-integral number names the file 3.5 (CONVFMT form)
		`BEGIN { ARGV[2] = 2024; ARGC = 3 }`,            // appended number
		`BEGIN { ARGV[1] = "v=9" } END { t = t "v" v }`, // turned into an assignment
	}
	bi := verifIntRange(0, len(begins)-1)
	stdin := []byte("s\n")
	src := begins[bi] + ` { t = t FILENAME ":" $0 ";" }`
	cfg := &Config{Stdin: bytes.NewReader(stdin), Output: &bytes.Buffer{}, Error: &bytes.Buffer{}, Environ: []string{}, Args: []string{"f1"}, OpenFile: fs.open}
	_, err, p := verifRunProgram(src, cfg, nil)
	verifAssert(err == nil, "run failed")
	want := []string{"2024:y;", "f2:b;", "-:s;", "-:s;", "f1:a;f2:b;", "3.5:h;", "f1:a;2024:y;", "-:s;v9"}[bi]
	verifReach("ran")
	verifAssert(verifGlobal(p, "t").s == want, "operands changed in BEGIN (ARGV elements set to numbers or strings, deleted, emptied, appended) were not processed as the operand list they form")
}
