package interp

import (
	"bytes"
	"encoding/csv"

	"github.com/benhoyt/goawk/internal/ast"
)

// C06 — $0, the fields and NF stay mutually consistent: one (thorough: two)
// record operations from an arbitrary valid record state, compared with an
// executable reference model of the record written from the property text.

type verifRec struct {
	line   string
	fields []string
	fs     string // FS in force when $0 was last set
	curFS  string // FS now
	ofs    string
}

func verifBlank(c byte) bool { return c == ' ' || c == '\t' || c == '\n' }

// reference field splitting: a single space means runs of blanks (leading/trailing ignored),
// any other single byte is literal; an empty record has no fields
func verifRefSplit(line, fs string) []string {
	var out []string
	if fs == " " {
		i := 0
		for i < len(line) {
			for i < len(line) && verifBlank(line[i]) {
				i++
			}
			if i >= len(line) {
				break
			}
			j := i
			for j < len(line) && !verifBlank(line[j]) {
				j++
			}
			out = append(out, line[i:j])
			i = j
		}
		return out
	}
	if line == "" {
		return nil
	}
	start := 0
	for i := 0; i < len(line); i++ {
		if line[i] == fs[0] {
			out = append(out, line[start:i])
			start = i + 1
		}
	}
	return append(out, line[start:])
}

func verifJoin(f []string, sep string) string {
	s := ""
	for i, x := range f {
		if i > 0 {
			s += sep
		}
		s += x
	}
	return s
}

func (r *verifRec) get(i int) string {
	if i == 0 {
		return r.line
	}
	if i < 0 {
		i = len(r.fields) + 1 + i
		if i < 1 {
			return ""
		}
	}
	if i > len(r.fields) {
		return ""
	}
	return r.fields[i-1]
}

func (r *verifRec) set(i int, v string) {
	if i == 0 {
		r.line = v
		r.fs = r.curFS
		r.fields = verifRefSplit(v, r.fs)
		return
	}
	if i < 0 {
		i = len(r.fields) + 1 + i
		if i < 1 {
			return
		}
	}
	for len(r.fields) < i {
		r.fields = append(r.fields, "")
	}
	r.fields[i-1] = v
	r.line = verifJoin(r.fields, r.ofs)
}

func (r *verifRec) setNF(n int) {
	for len(r.fields) < n {
		r.fields = append(r.fields, "")
	}
	r.fields = r.fields[:n]
	r.line = verifJoin(r.fields, r.ofs)
}

// compare the observable triple ($0, NF, $1..$(NF+1)) of the interpreter with the model
func verifSameRecord(p *interp, r *verifRec, what string) {
	nf := p.getSpecial(ast.V_NF)
	verifAssert(nf.num() == float64(len(r.fields)), what+": NF is not the number of fields")
	verifAssert(len(p.fields) == len(r.fields), what+": the field list has the wrong length")
	verifAssert(p.getField(0).s == r.line, what+": $0 differs from the record model")
	ok := true
	for j := 1; j <= len(r.fields)+1; j++ {
		ok = ok && p.getField(j).s == r.get(j)
	}
	verifAssert(ok, what+": a field differs from the record model (fields past NF must read as empty)")
	verifAssert(len(p.fieldsIsTrueStr) == len(p.fields), what+": per-field flags out of step with the fields")
}

// an arbitrary valid record state: either an unsplit line, or an explicit field list already joined by OFS
func verifRecordState() (*interp, *verifRec) {
	p := &interp{fieldSep: " ", savedFieldSep: " ", outputFieldSep: " ", recordSep: "\n", convertFormat: "%.6g"}
	r := &verifRec{fs: " ", curFS: " ", ofs: " "}
	if verifIntRange(0, 1) == 0 {
		fs := " "
		if verifIntRange(0, 1) == 1 {
			c := verifByte()
			verifAssume(c != ' ' && c < 0x80)
			fs = string([]byte{c})
		}
		p.fieldSep, r.curFS, r.fs = fs, fs, fs
		line := verifString(verifIntRange(0, verifC06Bound(3, 4)))
		for i := 0; i < len(line); i++ {
			verifAssume(line[i] != '\v' && line[i] != '\f' && line[i] != '\r' && line[i] < 0x80)
		}
		p.setLine(line, false)
		r.line = line
		r.fields = verifRefSplit(line, fs)
	} else {
		k := verifIntRange(0, verifC06Bound(2, 3))
		for i := 0; i < k; i++ {
			f := verifString(verifIntRange(0, 1))
			p.fields = append(p.fields, f)
			p.fieldsIsTrueStr = append(p.fieldsIsTrueStr, false)
			r.fields = append(r.fields, f)
		}
		p.haveFields = true
		p.numFields = num(float64(k))
		p.line = verifJoin(p.fields, " ")
		r.line = p.line
	}
	return p, r
}

// verifC06FirstOp: the operation is the first of two: it is drawn from the state-changing operations only, with small
// concrete field indexes and NF values (the second operation ranges over everything)
var verifC06FirstOp = false

func verifRecordOp(p *interp, r *verifRec) string {
	op := 0
	if verifC06FirstOp {
		op = []int{3, 4, 5, 6, 7}[verifIntRange(0, 4)]
	} else {
		op = verifIntRange(0, 7)
	}
	switch op {
	case 0: // read $i for any i
		i := verifInt()
		before := *r
		got := p.getField(i).s
		verifAssert(got == r.get(i), "reading $i: value differs from the record model (negative indexes count from the last field)")
		_ = before
		return "after reading $i"
	case 1:
		_ = p.getSpecial(ast.V_NF)
		return "after reading NF"
	case 2:
		_ = p.getField(0)
		return "after reading $0"
	case 3: // $i = v
		i := 0
		if verifC06FirstOp {
			i = verifIntRange(-1, 4)
		} else {
			i = verifInt()
		}
		v := verifString(verifIntRange(0, 1))
		verifAssume(i <= 5 || i > maxFieldIndex) // keep the record small; larger legal indexes are outside the bound
		if i == 0 {
			for k := 0; k < len(v); k++ {
				verifAssume(v[k] != '\v' && v[k] != '\f' && v[k] != '\r' && v[k] < 0x80)
			}
		}
		err := p.setField(i, v)
		if i > maxFieldIndex {
			verifAssert(err != nil, "assigning a field beyond the maximum index did not fail")
			return "after a rejected field assignment"
		}
		verifAssert(err == nil, "assigning $i failed")
		r.set(i, v)
		return "after $i = v"
	case 4: // NF = x for any float
		x := 0.0
		if verifC06FirstOp {
			x = float64(verifIntRange(0, 4))
		} else {
			x = verifFloat64()
		}
		verifAssume(!(x >= 6 && x <= maxFieldIndex+1)) // small records only; NaN, negative and huge values are in
		err := p.setSpecial(ast.V_NF, num(x))
		if err != nil {
			verifAssert(!(x >= 0 && x < 6), "NF rejected a small non-negative value")
			return "after a rejected NF assignment"
		}
		verifAssert(x == x && x > -1, "NF accepted a negative or NaN value")
		verifKnown("C06-nf-fraction", x != float64(int64(x)))
		r.setNF(int(x))
		return "after NF = x"
	case 5: // $0 = v
		v := verifString(verifIntRange(0, verifC06Bound(2, 3)))
		for i := 0; i < len(v); i++ {
			verifAssume(v[i] != '\v' && v[i] != '\f' && v[i] != '\r' && v[i] < 0x80)
		}
		err := p.setField(0, v)
		verifAssert(err == nil, "assigning $0 failed")
		r.set(0, v)
		return "after $0 = v"
	case 6: // FS = f: must not re-split the current record
		c := verifByte()
		verifAssume(c < 0x80 && c != '\\')
		err := p.setSpecial(ast.V_FS, str(string([]byte{c})))
		verifAssert(err == nil, "assigning a one-character FS failed")
		r.curFS = string([]byte{c})
		return "after FS = c"
	default: // OFS = o: takes effect at the next rebuild
		o := verifString(verifIntRange(0, 1))
		err := p.setSpecial(ast.V_OFS, str(o))
		verifAssert(err == nil, "assigning OFS failed")
		r.ofs = o
		return "after OFS = o"
	}
}

func VerifC06OneStep() {
	p, r := verifRecordState()
	what := verifRecordOp(p, r)
	verifReach("op-done")
	verifSameRecord(p, r, what)
}

// verifC06Small makes the state and payload generators use one less than their quick sizes (line <= 2 bytes, <= 1 prepared field, $0 = one byte) (two
// operations from the larger states did not finish in an hour)
var verifC06Small = false

func verifC06Bound(quick, thorough int) int {
	if verifC06Small {
		return quick - 1
	}
	return verifBound(quick, thorough)
}

func VerifC06TwoSteps() {
	verifC06Small = true
	defer func() { verifC06Small = false }()
	p, r := verifRecordState()
	verifC06FirstOp = true
	_ = verifRecordOp(p, r)
	verifC06FirstOp = false
	what := verifRecordOp(p, r)
	verifSameRecord(p, r, what+" (second operation)")
}

func VerifC06RegexFS() {
	p := &interp{fieldSep: " ", savedFieldSep: " ", outputFieldSep: " ", convertFormat: "%.6g"}
	err := p.setSpecial(ast.V_FS, str("X+"))
	verifAssert(err == nil, "FS regex rejected")
	line := verifString(verifIntRange(0, verifBound(4, 6)))
	p.setLine(line, false)
	// a later change of FS (to another regex, a single character or a space) must not re-split this record
	switch verifIntRange(0, 3) {
	case 1:
		verifAssert(p.setSpecial(ast.V_FS, str("Y+")) == nil, "FS regex rejected")
	case 2:
		verifAssert(p.setSpecial(ast.V_FS, str("Y")) == nil, "FS rejected")
	case 3:
		verifAssert(p.setSpecial(ast.V_FS, str(" ")) == nil, "FS rejected")
	}
	// reference: split at maximal runs of X
	var want []string
	if line != "" {
		start := 0
		for i := 0; i < len(line); {
			if line[i] == 'X' {
				j := i
				for j < len(line) && line[j] == 'X' {
					j++
				}
				want = append(want, line[start:i])
				start = j
				i = j
			} else {
				i++
			}
		}
		want = append(want, line[start:])
	}
	p.ensureFields()
	verifAssert(verifSameStrs(p.fields, want), "regex FS: fields are not the pieces between the leftmost-longest non-empty matches")
	verifAssert(p.getSpecial(ast.V_NF).num() == float64(len(want)), "regex FS: NF is not the number of fields")
}

// short histories over small concrete parameter domains with symbolic payloads: stale state from an
// earlier operation (shrunk field lists, old separators) must never show through a later one
func VerifC06Histories() {
	p := &interp{fieldSep: " ", savedFieldSep: " ", outputFieldSep: " ", recordSep: "\n", convertFormat: "%.6g"}
	r := &verifRec{fs: " ", curFS: " ", ofs: " "}
	p.setLine("a b c", false)
	r.line = "a b c"
	r.fields = verifRefSplit("a b c", " ")
	nops := verifIntRange(2, verifBound(3, 4))
	what := ""
	for k := 0; k < nops; k++ {
		switch verifIntRange(0, 3) {
		case 0: // NF = n
			n := verifIntRange(0, 4)
			verifAssert(p.setSpecial(ast.V_NF, num(float64(n))) == nil, "NF assignment failed")
			r.setNF(n)
			what = "NF = n"
		case 1: // $j = v
			j := verifIntRange(1, 4)
			v := verifString(1)
			verifAssert(p.setField(j, v) == nil, "field assignment failed")
			r.set(j, v)
			what = "$j = v"
		case 2: // $0 = w
			w := verifString(verifIntRange(0, 2))
			for i := 0; i < len(w); i++ {
				verifAssume(w[i] != '\v' && w[i] != '\f' && w[i] != '\r' && w[i] < 0x80)
			}
			verifAssert(p.setField(0, w) == nil, "$0 assignment failed")
			r.set(0, w)
			what = "$0 = w"
		default: // OFS = o
			o := []string{"", "-", "::"}[verifIntRange(0, 2)]
			verifAssert(p.setSpecial(ast.V_OFS, str(o)) == nil, "OFS assignment failed")
			r.ofs = o
			what = "OFS = o"
		}
	}
	verifSameRecord(p, r, "after a history ending in "+what)
}

// in CSV/TSV output mode a rebuilt $0 is the CSV encoding of the fields: exactly what print writes
func VerifC06CSVRebuild() {
	sep := []rune{',', '\t'}[verifIntRange(0, 1)]
	p := &interp{fieldSep: " ", savedFieldSep: " ", outputFieldSep: " ", recordSep: "\n", convertFormat: "%.6g", outputFormat: "%.6g",
		outputMode: CSVMode, csvOutputConfig: CSVOutputConfig{Separator: sep}}
	p.setLine("a b", false)
	v1 := verifString(verifIntRange(0, 2))
	v2 := []string{"b", "", " x", "\\.", "q\"q"}[verifIntRange(0, 4)]
	for i := 0; i < len(v1); i++ {
		verifAssume(v1[i] != '\r')
	}
	verifAssert(p.setField(1, v1) == nil && p.setField(2, v2) == nil, "field assignment failed")
	var ref bytes.Buffer
	w := csv.NewWriter(&ref)
	w.Comma = sep
	w.Write([]string{v1, v2})
	w.Flush()
	want := ref.String()
	want = want[:len(want)-1]
	verifAssert(p.getField(0).s == want, "in CSV/TSV output mode the rebuilt $0 is not the CSV encoding of the fields")
	var out bytes.Buffer
	verifAssert(p.printArgs(&out, []value{str(v1), str(v2)}) == nil && out.String() == want+"\n", "print in CSV/TSV output mode does not write the CSV encoding of its arguments")
}

// sub / gsub on a field or on $0 through the real compiler and VM: a successful substitution is an assignment to its
// target (even when the text does not change), an unsuccessful one is not
func VerifC06SubOnRecord() {
	x, y := verifString(1), verifString(1)
	verifAssume(x[0] > ' ' && x[0] < 0x7f && y[0] > ' ' && y[0] < 0x7f && x[0] != ':' && y[0] != ':')
	line := x + "  " + y + " c"
	progs := []string{
		`{ n = gsub(/X+/, "&", $2) }`,
		`{ n = sub(/X+/, "X", $2) }`,
		`{ OFS = "-"; n = gsub(/X+/, "&", $2) }`,
		`{ n = sub(/X+/, "&") }`,
		`{ FS = ":"; n = sub(/X+/, "&") }`,
		`{ n = gsub(/X+/, "&", $5) }`,
		`{ n = gsub(/X+/, "&", $1) + gsub(/X+/, "&", $2) }`,
		`{ OFS = "-"; n = sub(/X+/, "X", $(-1)) }`,
	}
	i := verifIntRange(0, len(progs)-1)
	p, err := verifRunWithRecord(progs[i], line, nil)
	verifAssert(err == nil, "sub/gsub on the record failed")
	r := &verifRec{fs: " ", curFS: " ", ofs: " ", line: line, fields: verifRefSplit(line, " ")}
	xm, ym := x == "X", y == "X"
	want := 0
	switch i {
	case 0, 1:
		if ym {
			r.set(2, "X")
			want = 1
		}
	case 2:
		r.ofs = "-"
		if ym {
			r.set(2, "X")
			want = 1
		}
	case 3:
		if xm || ym {
			r.set(0, line)
			want = 1
		}
	case 4:
		r.curFS = ":"
		if xm || ym {
			r.set(0, line)
			want = 1
		}
	case 5:
	case 6:
		if xm {
			r.set(1, "X")
			want++
		}
		if ym {
			r.set(2, "X")
			want++
		}
	case 7:
		r.ofs = "-"
	}
	verifReach("ran")
	verifAssert(verifGlobal(p, "n").n == float64(want), "sub/gsub returned a count other than the number of substitutions")
	verifSameRecord(p, r, "after sub/gsub on a field or $0")
}

// $0 is rebuilt when a field or NF is assigned, with the separator and output mode in force at that moment: a later
// change of OFS or OUTPUTMODE does not re-encode a record that is not assigned again
func VerifC06RebuildMoment() {
	p := &interp{fieldSep: " ", savedFieldSep: " ", outputFieldSep: " ", recordSep: "\n", convertFormat: "%.6g", outputFormat: "%.6g"}
	p.setLine("a b c", false)
	v := verifString(verifIntRange(0, 2))
	for i := 0; i < len(v); i++ {
		verifAssume(v[i] != '\r' && v[i] != '\n')
	}
	first := verifIntRange(0, 2) // what is assigned: a field, NF, a field beyond NF
	switch first {
	case 0:
		verifAssert(p.setField(2, v) == nil, "field assignment failed")
	case 1:
		verifAssert(p.setSpecial(ast.V_NF, num(2)) == nil, "NF assignment failed")
	default:
		verifAssert(p.setField(4, v) == nil, "field assignment failed")
	}
	want := []string{"a " + v + " c", "a b", "a b c " + v}[first]
	// then the way records are joined changes
	switch verifIntRange(0, 3) {
	case 0:
		verifAssert(p.setSpecial(ast.V_OUTPUTMODE, str("csv")) == nil, "OUTPUTMODE assignment failed")
	case 1:
		verifAssert(p.setSpecial(ast.V_OUTPUTMODE, str("tsv")) == nil, "OUTPUTMODE assignment failed")
	case 2:
		verifAssert(p.setSpecial(ast.V_OFS, str("-")) == nil, "OFS assignment failed")
	default:
		verifAssert(p.setSpecial(ast.V_OUTPUTMODE, str("csv")) == nil && p.setSpecial(ast.V_OUTPUTMODE, str("")) == nil && p.setSpecial(ast.V_OFS, str("::")) == nil, "assignment failed")
	}
	verifReach("read")
	verifAssert(p.getField(0).s == want, "$0 read after OFS / OUTPUTMODE changed is not the record as it was rebuilt when the field (or NF) was assigned")
	verifAssert(p.getSpecial(ast.V_NF).num() == float64([]int{3, 2, 4}[first]), "NF is not the number of fields")
}
