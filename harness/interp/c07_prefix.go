package interp

// C07 — prefix stability of the record split functions: a decision taken on a
// partial buffer (atEOF=false) must be the decision taken when more data is in
// the buffer; this is the lemma that makes record reading independent of how
// the bytes arrive.

func VerifC07Byte() {
	n := verifIntRange(0, verifBound(5, 7))
	data := verifBytes(n)
	k := verifIntRange(0, n)
	s := byteSplitter{sep: verifByte()}
	a1, t1, _ := s.scan(data[:k], false)
	a2, t2, _ := s.scan(data, true)
	if a1 > 0 {
		verifReach("early-decision")
		verifAssert(a1 == a2 && string(t1) == string(t2), "byte RS: decision on a partial buffer differs from the decision on the full input")
	}
	if n > 0 {
		verifAssert(a2 > 0, "byte RS: no progress at EOF")
	}
}

func VerifC07Blank() {
	n := verifIntRange(0, verifBound(5, 7))
	data := verifBytes(n)
	k := verifIntRange(0, n)
	var rt1, rt2 string
	s1 := blankLineSplitter{terminator: &rt1}
	s2 := blankLineSplitter{terminator: &rt2}
	a1, t1, _ := s1.scan(data[:k], false)
	a2, t2, _ := s2.scan(data, true)
	if a1 > 0 && t1 != nil {
		verifReach("early-decision")
		verifAssert(a1 == a2 && string(t1) == string(t2), "RS=\"\": record decided on a partial buffer differs from the decision on the full input")
		verifAssert(rt1 == rt2, "RS=\"\": RT decided on a partial buffer differs from RT on the full input")
	}
}
