package interp

import (
	"math"
	"regexp"
	"unicode/utf8"

	"github.com/benhoyt/goawk/internal/ast"
	"github.com/benhoyt/goawk/internal/compiler"
	"github.com/benhoyt/goawk/internal/resolver"
)

// C10 — substr / index / match / split / sub / gsub / int obey their defining equations.

func verifBuiltinInterp(chars bool) *interp {
	return &interp{stack: make([]value, 8), chars: chars, convertFormat: "%.6g", regexCache: map[string]*regexp.Regexp{}, formatCache: map[string]cachedFormat{}}
}

// the characters of s: bytes in byte mode, UTF-8 sequences (an invalid byte is one character) in character mode
func verifChars(s string, chars bool) []string {
	var out []string
	for i := 0; i < len(s); {
		n := 1
		if chars {
			_, n = utf8.DecodeRuneInString(s[i:])
		}
		out = append(out, s[i:i+n])
		i += n
	}
	return out
}

// reference substr from the property text, evaluated in float arithmetic (no integer conversion at all):
// start = max(trunc(m), 1); count = all remaining if omitted, none if negative, else trunc(n)
func verifRefSubstr(s string, chars bool, m float64, haveN bool, n float64) string {
	cs := verifChars(s, chars)
	start := math.Trunc(m)
	if start < 1 {
		start = 1
	}
	count := math.Inf(1)
	if haveN {
		count = math.Trunc(n)
		if count < 0 {
			count = 0
		}
	}
	out := ""
	for k := range cs {
		pos := float64(k + 1)
		if pos >= start && pos-start < count {
			out += cs[k]
		}
	}
	return out
}

func verifSubject(maxLen int) string {
	return verifString(verifIntRange(0, maxLen))
}

func VerifC10Substr() {
	chars := verifIntRange(0, 1) == 1
	s := verifSubject(verifBound(2, 3))
	m := verifFloat64()
	verifAssume(m == m)
	p := verifBuiltinInterp(chars)
	haveN := verifIntRange(0, 1) == 1
	var n float64
	p.push(str(s))
	p.push(num(m))
	var err error
	if haveN {
		n = verifFloat64()
		verifAssume(n == n)
		p.push(num(n))
		err = p.callBuiltin(compiler.BuiltinSubstrLength)
	} else {
		err = p.callBuiltin(compiler.BuiltinSubstr)
	}
	verifAssert(err == nil, "substr returned an error")
	got := p.peekTop()
	want := verifRefSubstr(s, chars, m, haveN, n)
	verifKnown("C10-substr-huge", m >= 9.2e18 || m < -9.2e18 || (haveN && (n >= 9.2e18 || n < -9.2e18)))
	verifAssert(got.s == want, "substr(s, m[, n]) differs from: start at max(trunc(m),1), take trunc(n) characters (none if negative, all remaining if omitted or too large)")
}

func VerifC10Int() {
	x := verifFloat64()
	verifAssume(x == x && x-x == 0) // finite
	p := verifBuiltinInterp(false)
	p.push(num(x))
	err := p.callBuiltin(compiler.BuiltinInt)
	verifKnown("C10-int-huge", x >= 9.2e18 || x < -9.2e18)
	verifAssert(err == nil && p.peekTop().n == math.Trunc(x), "int(x) is not x truncated toward zero")
}

// index(s, t): position of the first occurrence (1-based, in characters in -c mode), 0 if none
func VerifC10Index() {
	chars := verifIntRange(0, 1) == 1
	s := verifSubject(verifBound(3, 4))
	t := verifString(verifIntRange(0, 2))
	p := verifBuiltinInterp(chars)
	p.push(str(s))
	p.push(str(t))
	err := p.callBuiltin(compiler.BuiltinIndex)
	verifAssert(err == nil, "index failed")
	got := p.peekTop().n
	// reference: smallest byte offset where t occurs
	off := -1
	for i := 0; i+len(t) <= len(s) && off < 0; i++ {
		if s[i:i+len(t)] == t {
			off = i
		}
	}
	if off < 0 {
		verifAssert(got == 0, "index of an absent string is not 0")
		return
	}
	want := off + 1
	if chars {
		want = len(verifChars(s[:off], true)) + 1
	}
	verifAssert(got == float64(want), "index(s, t) is not the position of the first occurrence")
	// substr(s, index, length(t)) gives back t when t sits on character boundaries
	if !chars {
		verifAssert(verifRefSubstr(s, false, got, true, float64(len(t))) == t, "substr(s, index(s,t), length(t)) is not t")
	}
}

// match(s, /X+/): RSTART/RLENGTH describe the leftmost-longest match; 0 and -1 when none
func VerifC10Match() {
	chars := verifIntRange(0, 1) == 1
	s := verifSubject(verifBound(3, 4))
	p := verifBuiltinInterp(chars)
	p.push(str(s))
	p.push(str("X+"))
	err := p.callBuiltin(compiler.BuiltinMatch)
	verifAssert(err == nil, "match failed")
	loc := verifRegexFindIndex("X+", []byte(s))
	if loc == nil {
		verifAssert(p.matchStart.n == 0 && p.matchLength.n == -1 && p.peekTop().n == 0, "match without a match must set RSTART=0, RLENGTH=-1 and return 0")
		return
	}
	verifReach("matched")
	verifAssert(p.peekTop().n == p.matchStart.n, "match does not return RSTART")
	sub := verifRefSubstr(s, chars, p.matchStart.n, true, p.matchLength.n)
	verifAssert(sub == s[loc[0]:loc[1]], "substr(s, RSTART, RLENGTH) is not the leftmost-longest match")
}

// split(s, a, c) with a single-byte separator other than space: pieces joined by c give back s
func VerifC10Split() {
	s := verifSubject(verifBound(3, 5))
	c := verifByte()
	verifAssume(c != ' ' && c < 0x80)
	p := verifBuiltinInterp(false)
	p.arrays = []map[string]value{{}}
	n, err := p.split(s, resolver.Global, 0, string([]byte{c}), false, DefaultMode)
	verifAssert(err == nil, "split failed")
	arr := p.arrays[0]
	verifAssert(len(arr) == n, "split returns a count that is not the number of elements")
	if s == "" {
		verifAssert(n == 0, "split of the empty string yields elements")
		return
	}
	cnt := 0
	for i := 0; i < len(s); i++ {
		if s[i] == c {
			cnt++
		}
	}
	verifAssert(n == cnt+1, "split: number of pieces is not occurrences+1")
	joined := ""
	ok := true
	for i := 1; i <= n; i++ {
		v, have := arr[verifItoa(i)]
		ok = ok && have
		if i > 1 {
			joined += string([]byte{c})
		}
		joined += v.s
	}
	verifAssert(ok && joined == s, "split: the pieces joined by the separator do not give back the string")
}

func verifItoa(i int) string {
	if i >= 10 {
		return verifItoa(i/10) + string([]byte{byte('0' + i%10)})
	}
	return string([]byte{byte('0' + i)})
}

// reference expansion of an AWK replacement string for one match
func verifExpand(repl, match string) string {
	out := ""
	for i := 0; i < len(repl); i++ {
		switch {
		case repl[i] == '&':
			out += match
		case repl[i] == '\\' && i+1 < len(repl) && repl[i+1] == '&':
			out += "&"
			i++
		case repl[i] == '\\' && i+1 < len(repl) && repl[i+1] == '\\':
			out += "\\"
			i++
		default:
			out += string([]byte{repl[i]})
		}
	}
	return out
}

// sub/gsub with regex X+ on every subject and every replacement string
func VerifC10Sub() {
	in := verifSubject(verifBound(3, 4))
	repl := verifString(verifIntRange(0, verifBound(2, 3)))
	p := verifBuiltinInterp(false)
	gout, gn, err := p.sub("X+", repl, in, true)
	verifAssert(err == nil, "gsub failed")
	sout, sn, err2 := p.sub("X+", repl, in, false)
	verifAssert(err2 == nil, "sub failed")
	locs := verifRegexFindAll("X+", in, -1)
	verifAssert(gn == len(locs), "gsub does not return the number of non-overlapping leftmost-longest matches")
	wantG, wantS := "", ""
	prev := 0
	for k, l := range locs {
		e := verifExpand(repl, in[l[0]:l[1]])
		wantG += in[prev:l[0]] + e
		if k == 0 {
			wantS = in[:l[0]] + e + in[l[1]:]
		}
		prev = l[1]
	}
	wantG += in[prev:]
	if len(locs) == 0 {
		wantS = in
	}
	verifAssert(gout == wantG, "gsub: result differs from replacing every match (& = the match, \\& = literal &, \\\\ = backslash)")
	verifAssert(sout == wantS && (sn == 1) == (len(locs) > 0) && sn <= 1, "sub does not perform exactly the first of gsub's replacements")
	if repl == "&" {
		verifAssert(gout == in, "gsub(r, \"&\", t) changed t")
	}
}

// every dynamically compiled regex is leftmost-longest, whatever the state of the regex cache
func VerifC10LongestAlways() {
	p := verifBuiltinInterp(false)
	p.arrays = []map[string]value{{}}
	fill := []int{0, maxCachedRegexes - 1, maxCachedRegexes, maxCachedRegexes + 5}[verifIntRange(0, 3)]
	for i := 0; i < fill; i++ {
		_, err := p.compileRegex("r" + verifItoa(i))
		verifAssert(err == nil, "compileRegex failed")
	}
	switch verifIntRange(0, 3) {
	case 0:
		p.push(str("xabcab"))
		p.push(str("ab|abc"))
		verifAssert(p.callBuiltin(compiler.BuiltinMatch) == nil && p.matchStart.n == 2 && p.matchLength.n == 3, "match with a dynamic regex is not leftmost-longest")
	case 1:
		out, n, err := p.sub("ab|abc", "<&>", "abcabc", true)
		verifAssert(err == nil && n == 2 && out == "<abc><abc>", "gsub with a dynamic regex is not leftmost-longest")
	case 2:
		n, err := p.split("1abc2ab3", resolver.Global, 0, "ab|abc", true, DefaultMode)
		verifAssert(err == nil && n == 3 && p.arrays[0]["2"].s == "2", "split with a dynamic regex is not leftmost-longest")
	default:
		verifAssert(p.setSpecial(ast.V_FS, str("ab|abc")) == nil, "FS rejected")
		p.setLine("1abc2", false)
		verifAssert(p.getField(2).s == "2", "FS regex is not leftmost-longest")
	}
}

// sub/gsub with a regex that also matches the empty string (X*): every position where no X starts yields one empty
// match, except directly after a run of X that was just replaced
func verifRefGsubStar(in, repl string, global bool) (string, int) {
	out, n := "", 0
	lastEnd := -1
	done := false
	for i := 0; i <= len(in); {
		j := i
		for j < len(in) && in[j] == 'X' {
			j++
		}
		if j > i {
			if !done {
				out += verifExpand(repl, in[i:j])
				n++
				done = !global
			} else {
				out += in[i:j]
			}
			lastEnd = j
			i = j
			continue
		}
		if i != lastEnd && !done {
			out += verifExpand(repl, "")
			n++
			done = !global
		}
		if i < len(in) {
			out += string([]byte{in[i]})
		}
		i++
	}
	return out, n
}

func VerifC10SubEmptyMatch() {
	in := verifSubject(verifBound(2, 3))
	for i := 0; i < len(in); i++ {
		verifAssume(in[i] < 0x80)
	}
	repl := []string{"-", "&", "[&]", ""}[verifIntRange(0, 3)]
	global := verifIntRange(0, 1) == 1
	p := verifBuiltinInterp(false)
	out, n, err := p.sub("X*", repl, in, global)
	verifAssert(err == nil, "sub/gsub failed")
	wantOut, wantN := verifRefGsubStar(in, repl, global)
	verifReach("compared")
	verifAssert(n == wantN && out == wantOut, "sub/gsub with a regex that matches the empty string: result or count differ from replacing every match (one empty match at every position where no X starts, also in an empty subject, but not directly after a replaced run)")
}
