package interp

import (
	"io"

	"github.com/benhoyt/goawk/internal/ast"
)

// C07 — end-to-end schedule independence and losslessness: the real
// (*interp).newScanner + the real bufio.Scanner are driven by a reader that
// hands out the input in chunks whose boundaries are case-split; the record/RT
// sequence must be the one obtained from a single read of everything.

type verifChunkReader struct{ chunks [][]byte }

func (c *verifChunkReader) Read(p []byte) (int, error) {
	for len(c.chunks) > 0 && len(c.chunks[0]) == 0 {
		c.chunks = c.chunks[1:]
	}
	if len(c.chunks) == 0 {
		return 0, io.EOF
	}
	n := copy(p, c.chunks[0])
	c.chunks[0] = c.chunks[0][n:]
	return n, nil
}

// verifScanAll reads all records the way nextLine does (RT preset to RS before every Scan)
func verifScanAll(p *interp, data []byte, k1, k2 int) (recs []string, rts []string) {
	r := &verifChunkReader{chunks: [][]byte{data[:k1], data[k1:k2], data[k2:]}}
	sc := p.newScanner(r, make([]byte, verifScanBuf))
	for {
		p.recordTerminator = p.recordSep
		if !sc.Scan() {
			break
		}
		recs = append(recs, sc.Text())
		rts = append(rts, p.recordTerminator)
	}
	return
}

// initial size of the scanner buffer: 16 (larger than every input here) or 3 (full buffers, growth, a buffer edge
// inside a record or separator)
var verifScanBuf = 16

func verifSame(a, b []string) bool {
	if len(a) != len(b) {
		return false
	}
	for i := range a {
		if a[i] != b[i] {
			return false
		}
	}
	return true
}

// an interpreter whose RS was set the way a program sets it (through the special-variable setter)
func verifInterpRS(rs string) *interp {
	p := &interp{recordSep: "\n", convertFormat: "%.6g"}
	if err := p.setSpecial(ast.V_RS, str(rs)); err != nil {
		panic("RS rejected: " + err.Error())
	}
	return p
}

// one RS class, every 2-chunk delivery (thorough: every 3-chunk delivery)
func verifC07Chunks(rs string, class string) {
	n := verifIntRange(0, verifBound(4, 6))
	data := verifBytes(n)
	k1 := verifIntRange(0, n)
	k2 := n
	if verifBound(0, 1) == 1 {
		k2 = verifIntRange(k1, n)
	}
	verifScanBuf = 16
	r1, t1 := verifScanAll(verifInterpRS(rs), data, n, n)
	verifScanBuf = []int{16, 3}[verifIntRange(0, 1)]
	r2, t2 := verifScanAll(verifInterpRS(rs), data, k1, k2)
	verifScanBuf = 16
	verifReach("compared")
	verifAssert(verifSame(r1, r2), class+": records depend on how the input is chunked")
	verifAssert(verifSame(t1, t2), class+": RT depends on how the input is chunked")
}

func VerifC07ScanNewline()      { verifC07Chunks("\n", "RS=newline") }
func VerifC07ScanBlank()        { verifC07Chunks("", "RS=\"\"") }
func VerifC07ScanRegexPlus()    { verifC07Chunks("X+", "RS=/X+/") }
func VerifC07ScanRegexAlt()     { verifC07Chunks("b|abc", "RS=/b|abc/") }
func VerifC07ScanRegexAltPlus() { verifC07Chunks("a|b+", "RS=/a|b+/") }

func VerifC07ScanByte() {
	sep := verifByte()
	verifAssume(sep != '\n')
	verifC07Chunks(string([]byte{sep}), "RS=single byte")
}

// losslessness (single read): regex RS — records and RTs concatenated reproduce the input;
// single byte — records joined by RS reproduce it up to one final RS; newline — lines with one CR dropped
func VerifC07LosslessRegex() {
	rs := []string{"X+", "b|abc", "a|b+"}[verifIntRange(0, 2)]
	n := verifIntRange(0, verifBound(4, 6))
	data := verifBytes(n)
	k := verifIntRange(0, n)
	recs, rts := verifScanAll(verifInterpRS(rs), data, k, n)
	cat := ""
	for i := range recs {
		cat += recs[i] + rts[i]
	}
	verifAssert(cat == string(data), "regex RS: records followed by their RT do not reproduce the input")
}

func VerifC07LosslessByte() {
	sep := verifByte()
	verifAssume(sep != '\n')
	n := verifIntRange(0, verifBound(4, 6))
	data := verifBytes(n)
	k := verifIntRange(0, n)
	recs, _ := verifScanAll(verifInterpRS(string([]byte{sep})), data, k, n)
	cat := ""
	for i := range recs {
		if i > 0 {
			cat += string([]byte{sep})
		}
		cat += recs[i]
	}
	verifAssert(cat == string(data) || cat+string([]byte{sep}) == string(data), "single-byte RS: records joined by RS do not reproduce the input (up to one final RS)")
}

func VerifC07LosslessNewline() {
	n := verifIntRange(0, verifBound(4, 6))
	data := verifBytes(n)
	k := verifIntRange(0, n)
	recs, _ := verifScanAll(verifInterpRS("\n"), data, k, n)
	// reference: split on \n, no final empty line, one trailing CR dropped per line
	var want []string
	start := 0
	for i := 0; i <= len(data); i++ {
		if i == len(data) || data[i] == '\n' {
			if i == len(data) && start == len(data) {
				break
			}
			line := data[start:i]
			if len(line) > 0 && line[len(line)-1] == '\r' {
				line = line[:len(line)-1]
			}
			want = append(want, string(line))
			start = i + 1
		}
	}
	verifAssert(verifSame(recs, want), "RS=newline: records are not the lines of the input")
}

// RS="" on CR-free input: records are the maximal blank-line separated paragraphs
func VerifC07LosslessBlank() {
	n := verifIntRange(0, verifBound(4, 6))
	data := verifBytes(n)
	for _, c := range data {
		verifAssume(c != '\r')
	}
	k := verifIntRange(0, n)
	recs, _ := verifScanAll(verifInterpRS(""), data, k, n)
	// reference: strip leading/trailing newlines; split at runs of >= 2 newlines
	var want []string
	i := 0
	for i < len(data) && data[i] == '\n' {
		i++
	}
	for i < len(data) {
		j := i
		for {
			for j < len(data) && data[j] != '\n' {
				j++
			}
			// data[j] is a newline or the end
			e := j
			for e < len(data) && data[e] == '\n' {
				e++
			}
			if e-j >= 2 || e == len(data) {
				want = append(want, string(data[i:j]))
				i = e
				break
			}
			j = e
		}
	}
	verifAssert(verifSame(recs, want), "RS=\"\": records are not the blank-line separated paragraphs")
}

// a longer alternative that needs two more bytes than the shorter one it extends: the match "ab" found in a
// buffer that ends one byte later ("abc") is accepted although "abcd" may follow
func VerifC07ScanRegexAltGap() {
	n := verifIntRange(0, verifBound(5, 6))
	data := verifBytes(n)
	k1 := verifIntRange(0, n)
	r1, t1 := verifScanAll(verifInterpRS("ab|abcd"), data, n, n)
	r2, t2 := verifScanAll(verifInterpRS("ab|abcd"), data, k1, n)
	has := false
	for i := 0; i+4 <= n; i++ {
		has = has || (data[i] == 'a' && data[i+1] == 'b' && data[i+2] == 'c' && data[i+3] == 'd')
	}
	verifKnown("C07-regex-rs-needs-lookahead", has)
	verifReach("compared")
	verifAssert(verifSame(r1, r2) && verifSame(t1, t2), "RS=/ab|abcd/: records or RT depend on how the input is chunked")
}

// paragraph mode on longer inputs over the alphabet {letter, LF, CR}: blank lines spelled with CRLF, every 2-chunk split
func VerifC07ScanBlankCRLF() {
	n := verifIntRange(4, verifBound(6, 7))
	data := verifBytes(n)
	for _, b := range data {
		verifAssume(b == 'a' || b == '\n' || b == '\r')
	}
	k1 := verifIntRange(0, n)
	verifScanBuf = 16
	r1, t1 := verifScanAll(verifInterpRS(""), data, n, n)
	verifScanBuf = []int{16, 3}[verifIntRange(0, 1)]
	r2, t2 := verifScanAll(verifInterpRS(""), data, k1, n)
	verifScanBuf = 16
	verifReach("compared")
	verifAssert(verifSame(r1, r2) && verifSame(t1, t2), "RS=\"\" with CR and LF: records or RT depend on how the input is chunked")
}
