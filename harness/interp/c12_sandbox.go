package interp

import (
	"bytes"
	"os"
	"strings"

	"github.com/benhoyt/goawk/lexer"
)

// C12 — NoExec, NoFileWrites and NoFileReads confine every I/O entry point; every open goes
// through the configured OpenFile.  Flags are symbolic booleans, copied into the interpreter
// by the real setExecuteConfig; names are symbolic bytes or the special names.

type verifOpen struct {
	name string
	flag int
}

type verifSandbox struct {
	p                         *interp
	cfg                       *Config
	opens                     []verifOpen
	noExec, noWrites, noReads bool
}

func verifNewSandbox() *verifSandbox {
	sb := &verifSandbox{noExec: verifBool(), noWrites: verifBool(), noReads: verifBool()}
	prog := verifParse(`BEGIN { }`)
	sb.p = newInterp(prog)
	cfg := &Config{
		Stdin: bytes.NewReader([]byte("in\n")), Output: &bytes.Buffer{}, Error: &bytes.Buffer{}, Environ: []string{},
		NoExec: sb.noExec, NoFileWrites: sb.noWrites, NoFileReads: sb.noReads,
		ShellCommand: []string{"/nonexistent/gosym-no-shell"},
		OpenFile: func(name string, flag int, perm os.FileMode) (*os.File, error) {
			sb.opens = append(sb.opens, verifOpen{name, flag})
			return verifNewFile(nil), nil
		},
	}
	sb.cfg = cfg
	err := sb.p.setExecuteConfig(cfg)
	verifAssert(err == nil, "setExecuteConfig failed")
	return sb
}

// a file/command name: 0, 1 or 2 symbolic bytes, or one of the special names
func verifIOName() string {
	switch verifIntRange(0, 5) {
	case 0:
		return ""
	case 1:
		return verifString(1)
	case 2:
		return verifString(verifBound(2, 3))
	case 3:
		return "-"
	case 4:
		return "/dev/stdout"
	}
	return "/dev/stderr"
}

func (sb *verifSandbox) writeOpens() int {
	n := 0
	for _, o := range sb.opens {
		if o.flag&(os.O_WRONLY|os.O_RDWR|os.O_CREATE|os.O_TRUNC|os.O_APPEND) != 0 {
			n++
		}
	}
	return n
}

func (sb *verifSandbox) readOpens() int { return len(sb.opens) - sb.writeOpens() }

func (sb *verifSandbox) checkCommon(what string) {
	log := verifEventLog()
	verifAssert(!strings.Contains(log, "osopen:"), what+": a file was opened directly instead of through the configured OpenFile function")
	if sb.noExec {
		verifAssert(!strings.Contains(log, "start;") && !strings.Contains(log, "command:"), what+": a process was prepared or started although NoExec is set")
	}
	if sb.noWrites {
		verifAssert(sb.writeOpens() == 0, what+": a file was opened for writing although NoFileWrites is set")
	}
	if sb.noReads {
		verifAssert(sb.readOpens() == 0, what+": a file was opened for reading although NoFileReads is set")
	}
}

func verifDenied(err error, flagName string) bool {
	if err == nil {
		return false
	}
	e, ok := err.(*Error)
	return ok && strings.Contains(e.Error(), flagName)
}

// print > name, print >> name, print | name
func VerifC12Output() {
	sb := verifNewSandbox()
	redirect := []lexer.Token{lexer.GREATER, lexer.APPEND, lexer.PIPE}[verifIntRange(0, 2)]
	name := verifIOName()
	prior := verifIntRange(0, 2) // 0: name not open, 1: already open for writing, 2: already open for reading
	switch prior {
	case 1:
		sb.p.outputStreams[name] = newOutNullStream()
	case 2:
		sb.p.inputStreams[name] = newInFileStream(verifNewFile(nil))
	}
	_, err := sb.p.getOutputStream(redirect, str(name))
	verifReach("returned")
	sb.checkCommon("output redirection")
	if prior != 0 {
		verifAssert(len(sb.opens) == 0, "output redirection: a name that is already open was opened again")
		return
	}
	if redirect == lexer.PIPE {
		if sb.noExec {
			verifAssert(verifDenied(err, "NoExec"), "print | cmd under NoExec did not end with the NoExec error")
		}
		return
	}
	special := name == "-" || name == "/dev/stdout" || name == "/dev/stderr"
	if sb.noWrites && name != "-" {
		verifAssert(verifDenied(err, "NoFileWrites"), "print > file under NoFileWrites did not end with the NoFileWrites error")
	}
	if !sb.noWrites && !special {
		want := os.O_CREATE | os.O_WRONLY | os.O_TRUNC
		if redirect == lexer.APPEND {
			want = os.O_CREATE | os.O_WRONLY | os.O_APPEND
		}
		verifAssert(err == nil && len(sb.opens) == 1 && sb.opens[0].name == name && sb.opens[0].flag == want, "print > / >> file: the file must be opened exactly once through OpenFile, > truncating and >> appending")
	}
	if special {
		verifAssert(len(sb.opens) == 0, "the names -, /dev/stdout and /dev/stderr must not open a file")
	}
}

// run a one-statement BEGIN program inside the sandbox with NAME bound to the given string
func (sb *verifSandbox) runBegin(stmt string, name string) error {
	prog := verifParse(`BEGIN { ` + stmt + ` }`)
	p := newInterp(prog)
	// keep the sandbox configuration and stream tables of sb.p, run the new program's code
	verifAssert(p.setExecuteConfig(sb.cfg) == nil, "setExecuteConfig failed")
	p.inputStreams, p.outputStreams, p.scanners = sb.p.inputStreams, sb.p.outputStreams, sb.p.scanners
	p.globals[p.scalarIndexes["NAME"]] = str(name)
	sb.p = p
	return p.execute(prog.Compiled.Begin)
}

// getline < name (all variants go through the compiled getline opcodes)
func VerifC12InputFile() {
	sb := verifNewSandbox()
	name := verifIOName()
	prior := verifIntRange(0, 2)
	switch prior {
	case 1:
		sb.p.outputStreams[name] = newOutNullStream()
	case 2:
		sb.p.inputStreams[name] = newInFileStream(verifNewFile(nil))
		sb.p.scanners[name] = sb.p.newScanner(bytes.NewReader(nil), make([]byte, 16))
	}
	stmt := []string{`r = (getline x < NAME)`, `r = (getline < NAME)`, `r = (getline arr["k"] < NAME)`}[verifIntRange(0, 2)]
	err := sb.runBegin(stmt, name)
	sb.checkCommon("getline < file")
	if prior != 0 {
		verifAssert(len(sb.opens) == 0, "getline < file: a name that is already open was opened again")
		return
	}
	if name == "-" {
		verifAssert(err == nil && len(sb.opens) == 0, "getline < \"-\" must read standard input without opening a file, whatever the flags")
		return
	}
	if sb.noReads {
		verifAssert(verifDenied(err, "NoFileReads"), "getline < file under NoFileReads did not end with the NoFileReads error")
	} else {
		verifAssert(err == nil && len(sb.opens) == 1 && sb.opens[0].name == name && sb.opens[0].flag == os.O_RDONLY, "getline < file: the file must be opened once, read-only, through OpenFile")
	}
}

// cmd | getline, system(cmd), print | cmd through the compiled opcodes
func VerifC12Exec() {
	sb := verifNewSandbox()
	name := verifIOName()
	stmt := []string{`r = (NAME | getline x)`, `r = (NAME | getline)`, `r = system(NAME)`, `print "x" | NAME`, `printf "x" | NAME`}[verifIntRange(0, 4)]
	err := sb.runBegin(stmt, name)
	sb.checkCommon("cmd | getline / system() / print | cmd")
	verifAssert(len(sb.opens) == 0, "starting a command opened a file")
	if sb.noExec {
		verifAssert(verifDenied(err, "NoExec"), "a command (cmd | getline, system(), print | cmd) under NoExec did not end with the NoExec error")
	} else {
		verifAssert(err == nil, "a command failed although NoExec is not set")
	}
}

// file operands of the main loop
func VerifC12Operand() {
	sb := verifNewSandbox()
	operand := []string{"f", "-", "", "v=1", "dir/f2"}[verifIntRange(0, 4)]
	p := sb.p
	argv := p.arrays[p.arrayIndexes["ARGV"]]
	argv["0"] = str("goawk")
	argv["1"] = numStr(operand)
	p.argc = num(2)
	p.filenameIndex = 1
	line, err := p.nextLine()
	sb.checkCommon("file operand")
	if operand == "-" || operand == "" || operand == "v=1" {
		// standard input stays available, also under the name "-", whatever the flags
		verifAssert(err == nil && line == "in", "standard input (no file operand, or the operand -) was refused or not read")
	}
	isFile := operand == "f" || operand == "dir/f2"
	if isFile && sb.noReads {
		verifAssert(verifDenied(err, "NoFileReads"), "a file operand under NoFileReads did not end with the NoFileReads error")
	}
	if isFile && !sb.noReads {
		verifAssert(len(sb.opens) == 1 && sb.opens[0].name == operand && sb.opens[0].flag == os.O_RDONLY, "a file operand must be opened once, read-only, through OpenFile")
	}
	if !isFile {
		verifAssert(len(sb.opens) == 0, "an operand that is not a file name (-, empty, var=value) opened a file")
	}
}
