package interp

import (
	"math"
	"regexp"
	"strings"

	"github.com/benhoyt/goawk/internal/ast"
)

// C02 — script-controlled numbers and strings never make the host panic: every
// path below must return a value or an *Error (an escaping Go panic is reported
// by the engine as a violation with the solver's model as witness).

func verifRunWithRecord(src string, line string, setup func(p *interp)) (*interp, error) {
	prog := verifParse(src)
	p := newInterp(prog)
	p.setLine(line, false)
	if setup != nil {
		setup(p)
	}
	err := p.execute(prog.Compiled.Actions[0].Body)
	return p, err
}

func verifIsAwkError(err error) bool {
	if err == nil {
		return true
	}
	_, ok := err.(*Error)
	return ok
}

// every float64 as a field index in every field opcode
func VerifC02FieldIndex() {
	progs := []string{
		`{ r = $(x) }`,
		`{ $(x) = 7 }`,
		`{ $(x)++ }`,
		`{ ++$(x) }`,
		`{ $(x) += 2 }`,
		`{ r = $(x)-- }`,
		`{ sub(/a/, "b", $(x)) }`,
		`{ r = ($(x) = 3) }`,
	}
	pi := verifIntRange(0, len(progs)-1)
	x := verifFloat64()
	// indexes that would legitimately allocate many fields are outside the bound (they are legal, not crashes)
	verifAssume(!(x >= 8 && x <= maxFieldIndex+1))
	p, err := verifRunWithRecord(progs[pi], "5 a 6", func(p *interp) {
		p.globals[p.scalarIndexes["x"]] = num(x)
	})
	verifReach("ran")
	verifAssert(verifIsAwkError(err), "a field operation returned an error that is not an *interp.Error")
	if err == nil {
		verifAssert(len(p.fields) <= 8, "a field operation with an out-of-range index grew the record")
	}
	if x > maxFieldIndex+1 && pi != 0 && pi != 6 {
		verifKnown("C02-huge-float-index", x >= 9.2e18)
		verifAssert(err != nil, "assigning a field beyond the maximum field index did not fail")
	}
}

// every special variable with every short string
func VerifC02SetSpecialStr() {
	idx := verifIntRange(1, ast.V_LAST)
	p := &interp{fieldSep: " ", savedFieldSep: " ", recordSep: "\n", convertFormat: "%.6g", outputFieldSep: " "}
	maxLen := verifBound(1, 1) // two bytes for every special variable did not finish in an hour
	if idx == ast.V_RS || idx == ast.V_FS {
		maxLen = verifBound(2, 2) // the two variables whose value is compiled as a regular expression (3 bytes did not finish in an hour)
	}
	v := str(verifString(verifIntRange(0, maxLen)))
	if (idx == ast.V_RS || idx == ast.V_FS) && verifIntRange(0, 1) == 1 {
		// patterns that certainly do not compile (the contract stub leaves "syntax error" free, so a witness
		// found through it need not be a real syntax error)
		v = str([]string{"[[", "a(", "x**", "\\"}[verifIntRange(0, 3)])
	}
	verifKnown("C02-rs-invalid-utf8", idx == ast.V_RS)
	err := p.setSpecial(idx, v)
	verifReach("returned")
	verifAssert(verifIsAwkError(err) || err != nil, "setSpecial must return nil or an error")
	if err != nil && (idx == ast.V_RS || idx == ast.V_FS) && len(v.s) <= 2 {
		// a rejected assignment must leave the interpreter usable (a host may catch the error and run again on
		// the same Interpreter): read a record and split it into fields with whatever FS / RS are in force now
		verifReach("rejected")
		sc := p.newScanner(strings.NewReader("a b\nc d\n"), make([]byte, 64))
		if sc.Scan() {
			p.setLine(sc.Text(), false)
			p.ensureFields()
			verifAssert(len(p.fields) >= 1, "after a rejected FS / RS assignment the record can no longer be split")
		}
		verifAssert(p.fieldSep == " " && p.recordSep == "\n", "a rejected FS / RS assignment changed the variable all the same")
	}
}

// the numeric special variables with every float64
func VerifC02SetSpecialNum() {
	idx := []int{ast.V_NF, ast.V_ARGC, ast.V_NR, ast.V_FNR, ast.V_RSTART, ast.V_RLENGTH}[verifIntRange(0, 5)]
	p := &interp{fieldSep: " ", savedFieldSep: " ", recordSep: "\n", convertFormat: "%.6g", outputFieldSep: " "}
	x := verifFloat64()
	if idx == ast.V_NF {
		verifAssume(!(x >= 8 && x <= maxFieldIndex+1)) // legitimately large records are outside the bound
	}
	err := p.setSpecial(idx, num(x))
	verifAssert(verifIsAwkError(err), "setSpecial returned a foreign error")
	if idx == ast.V_NF && err == nil {
		verifAssert(len(p.fields) <= 8 && x > -1, "NF accepted a value outside 0..maxFieldIndex")
	}
	if idx == ast.V_NF && x > maxFieldIndex+1 {
		verifKnown("C02-huge-float-index", x >= 9.2e18)
		verifAssert(err != nil, "NF beyond the maximum field index was not rejected")
	}
	if idx == ast.V_ARGC && x > maxFieldIndex+1 {
		verifKnown("C02-huge-float-index", x >= 9.2e18)
		verifAssert(err != nil, "ARGC beyond the maximum was not rejected")
	}
}

// dynamic regexes: arbitrary short patterns give an error return, never a panic
func VerifC02DynamicRegex() {
	pat := verifString(verifIntRange(0, verifBound(2, 3)))
	p := &interp{regexCache: map[string]*regexp.Regexp{}, convertFormat: "%.6g"}
	switch verifIntRange(0, 2) {
	case 0:
		if verifIntRange(0, 1) == 1 {
			pat = []string{"[[", "a(", "x**", "\\"}[verifIntRange(0, 3)] // certainly invalid (see VerifC02SetSpecialStr)
		}
		_, err := p.compileRegex(pat)
		verifAssert(verifIsAwkError(err), "compileRegex returned a foreign error")
		// the same pattern again on the same interpreter (a later run of a reused Interpreter): same verdict, and a
		// regexp that is returned without an error can be used
		re2, err2 := p.compileRegex(pat)
		verifAssert((err == nil) == (err2 == nil), "compiling the same dynamic regex twice gives an error once and none the other time")
		if err2 == nil {
			re2.MatchString("abc")
		}
	case 1:
		_, _, err := p.sub(pat, "x", "abc", true)
		verifAssert(verifIsAwkError(err), "gsub with an invalid regex returned a foreign error")
	default:
		err := p.setSpecial(ast.V_FS, str(pat))
		verifAssert(verifIsAwkError(err), "FS with an invalid regex returned a foreign error")
	}
}

// all four record splitters on every buffer, both atEOF values: no panic, sane advance
func VerifC02Splitters() {
	n := verifIntRange(0, verifBound(4, 6))
	data := verifBytes(n)
	atEOF := verifBool()
	var rt string
	adv := 0
	var tok []byte
	switch verifIntRange(0, 2) {
	case 0:
		bs := byteSplitter{sep: verifByte()}
		adv, tok, _ = bs.scan(data, atEOF)
	case 1:
		bl := blankLineSplitter{terminator: &rt}
		adv, tok, _ = bl.scan(data, atEOF)
	default:
		var fields []string
		s := &csvSplitter{separator: ',', sepLen: 1, fields: &fields}
		adv, tok, _ = s.scan(data, atEOF)
	}
	verifAssert(adv >= 0 && adv <= n && len(tok) <= n, "a record splitter returned an advance outside the buffer")
}

// runaway recursion is an error, not a crash
func VerifC02CallDepth() {
	prog := verifParse(`function f(n) { return f(n + 1) } BEGIN { f(0) }`)
	p := newInterp(prog)
	p.callDepth = maxCallDepth - verifIntRange(0, 2)
	err := p.execute(prog.Compiled.Begin)
	verifAssert(err != nil && verifIsAwkError(err), "exceeding the maximum call depth is not reported as an error")
	verifAssert(p.sp >= 0, "stack pointer negative after the depth error")
}

// exit status and %c with every float64
func VerifC02ExitAndChar() {
	x := verifFloat64()
	if verifIntRange(0, 1) == 0 {
		prog := verifParse(`BEGIN { exit x }`)
		p := newInterp(prog)
		p.globals[p.scalarIndexes["x"]] = num(x)
		err := p.execute(prog.Compiled.Begin)
		verifAssert(err == errExit, "exit with an arbitrary number did not exit normally")
	} else {
		p := &interp{formatCache: map[string]cachedFormat{}, convertFormat: "%.6g", chars: verifBool()}
		_, err := p.sprintf("%c", []value{num(x)})
		verifAssert(err == nil, "%c of an arbitrary number failed")
	}
}

// a call pushes nulls for every local that was not passed: any number of them must fit (stack growth)
func VerifC02StackGrowth() {
	nparams := []int{2, 99, 100, 101, 130, 250}[verifIntRange(0, 5)]
	nargs := verifIntRange(0, 1)
	params := ""
	for i := 0; i < nparams; i++ {
		if i > 0 {
			params += ", "
		}
		params += "p" + verifItoa(i)
	}
	depth := verifIntRange(1, 2)
	src := "function f(" + params + ") { p0++; if (p0 < " + verifItoa(depth) + ") return f(p0); return p" + verifItoa(nparams-1) + " \"|\" p0 }\nBEGIN { r = f(" + []string{"", "0"}[nargs] + ") }"
	prog := verifParse(src)
	p := newInterp(prog)
	err := p.execute(prog.Compiled.Begin)
	verifAssert(err == nil && p.sp == 0, "a call with many unpassed locals failed or left the stack unbalanced")
	verifAssert(verifGlobal(p, "r").s == "|"+verifItoa(depth), "locals that were not passed are not null, or the result was lost")
}

// builtin functions with numeric arguments of any value (NaN, infinities, huge, negative, fractional): no panic
func VerifC02BuiltinNumbers() {
	s := verifString(verifIntRange(0, 1))
	progs := []string{
		`BEGIN { r = substr(s, x) }`, `BEGIN { r = substr(s, x, y) }`, `BEGIN { r = int(x) }`,
		`BEGIN { r = sprintf("%c|%d", x, y) }`, `BEGIN { r = sprintf("%x|%u", x, y) }`, `BEGIN { r = sprintf("%*d", x, 1) }`, `BEGIN { r = sprintf("%.*f", x, y) }`,
		`BEGIN { $x = s }`, `BEGIN { r = $x }`, `BEGIN { r = x % y; r = x ^ y }`, `BEGIN { NF = x }`, `BEGIN { r = substr(s, x, y) substr(s, y) }`,
		`BEGIN { exit x }`, `BEGIN { r = atan2(x, y) + sin(x) + cos(y) + exp(x) + log(y) + sqrt(x) }`, `BEGIN { $(x) = $(y) }`, `BEGIN { $x++; $y += 2 }`,
	}
	i := verifIntRange(0, len(progs)-1)
	// awkward values for both operands; for substr and the * width / precision one operand is any float64
	awkward := []float64{math.NaN(), math.Inf(1), math.Inf(-1), 1e300, -1e300, 2.5, 0, -1, 9.3e18, -9.3e18}
	x, y := awkward[verifIntRange(0, 9)], awkward[verifIntRange(0, 9)]
	if i == 0 || i == 1 || i == 5 || i == 6 {
		if verifIntRange(0, 1) == 1 {
			x = verifFloat64()
		} else {
			y = verifFloat64()
		}
	}
	prog := verifParse(progs[i])
	p := newInterp(prog)
	p.chars = verifIntRange(0, 1) == 1
	p.setLine("a b", false)
	for name, v := range map[string]value{"x": num(x), "y": num(y), "s": str(s)} {
		if idx, ok := p.scalarIndexes[name]; ok {
			p.globals[idx] = v
		}
	}
	err := p.execute(prog.Compiled.Begin)
	verifReach("returned")
	// run-time errors are fine (field index out of range, division by zero, ...); panics are reported by the engine
	if err != nil {
		_, isErr := err.(*Error)
		verifAssert(isErr || err == errExit, "a builtin given an unusual number failed with something other than an AWK run-time error")
	}
}

// printf / sprintf with every short format string: an error or a result, never a panic
func VerifC02Formats() {
	n := verifIntRange(0, verifBound(3, 4))
	format := verifString(n)
	p := &interp{formatCache: map[string]cachedFormat{}, convertFormat: "%.6g", chars: verifBool()}
	args := []value{num(1), str("s"), num(-2.5)}[:verifIntRange(0, 3)]
	_, err := p.sprintf(format, args)
	verifReach("returned")
	verifAssert(verifIsAwkError(err), "sprintf returned an error that is not an *interp.Error")
	// the same format again with fewer arguments (formats are cached per interpreter): an error or a result
	fewer := args[:verifIntRange(0, len(args))]
	_, err2 := p.sprintf(format, fewer)
	verifAssert(verifIsAwkError(err2), "sprintf returned an error that is not an *interp.Error")
	if err == nil && len(fewer) == len(args) {
		verifAssert(err2 == nil, "the same format with the same arguments failed the second time")
	}
}

// RS changed while a reader opened under the old RS still has records: the next read returns, never panics
func VerifC02RSSwitch() {
	p := &interp{fieldSep: " ", savedFieldSep: " ", recordSep: "\n", convertFormat: "%.6g", outputFieldSep: " "}
	first := []string{"X+", "\n", "", "ab|c", ";"}[verifIntRange(0, 4)]
	verifAssert(p.setSpecial(ast.V_RS, str(first)) == nil, "RS rejected")
	sc := p.newScanner(strings.NewReader("aXXb\n\nc;dXe\n"), make([]byte, 64))
	sc.Scan()
	second := verifString(verifIntRange(0, 1)) // longer values are regexes: covered by the fixed list and by VerifC02SetSpecialStr
	if verifIntRange(0, 1) == 0 {
		second = []string{"\xff", "\xc3", "[[", "\xe4\xb8\xad", "X+", "a|bc", ""}[verifIntRange(0, 6)]
	}
	err := p.setSpecial(ast.V_RS, str(second))
	verifAssert(verifIsAwkError(err), "setSpecial returned a foreign error")
	n := 0
	for sc.Scan() && n < 20 {
		n++
	}
	verifReach("read-on")
	// a new reader under the new RS works too
	sc2 := p.newScanner(strings.NewReader("p q\n"), make([]byte, 64))
	sc2.Scan()
}

// more live local arrays than any preallocated table holds: deep recursion with a fresh local array per frame
func VerifC02DeepLocalArrays() {
	depth := []int{3, 99, 100, 101, 150}[verifIntRange(0, 4)]
	if verifIntRange(0, 1) == 1 {
		// scalar locals only: the value stack grows inside the call set-up
		d := []int{20, 33, 34, 50, 70}[verifIntRange(0, 4)]
		prog := verifParse("function f(n, a, b, c) { a = n; b = n + 1; c = n + 2; if (n < " + verifItoa(d) + ") return f(n + 1) + a + b - c + 1; return a + b + c }\nBEGIN { r = f(0) }")
		p := newInterp(prog)
		err := p.execute(prog.Compiled.Begin)
		verifAssert(err == nil && p.sp == 0, "deep recursion with scalar locals failed or left the stack unbalanced")
		// f(d) = 3d+3, each outer frame adds a + b - c + 1 = n
		verifAssert(verifGlobal(p, "r").n == float64(3*d+3+d*(d-1)/2), "locals of an outer frame were disturbed by the frames below it")
		return
	}
	prog := verifParse("function f(n, loc) { loc[n] = n; if (n < " + verifItoa(depth) + ") return f(n + 1) + loc[n]; return loc[n] }\nBEGIN { r = f(0) }")
	p := newInterp(prog)
	err := p.execute(prog.Compiled.Begin)
	verifAssert(err == nil && p.sp == 0, "deep recursion with a local array per frame failed or left the stack unbalanced")
	verifAssert(verifGlobal(p, "r").n == float64(depth*(depth+1)/2), "a local array of an outer frame was disturbed by the frames below it")
}
