package interp

import (
	"bytes"
	"context"
	"errors"
	"time"

	"github.com/benhoyt/goawk/internal/compiler"
)

// C15 — cancellation stops execution within a bounded number of steps and is otherwise invisible.

var verifCanceled = errors.New("context canceled (harness context)")

type verifCtx struct{ done chan struct{} }

func (c *verifCtx) Deadline() (time.Time, bool) { return time.Time{}, false }
func (c *verifCtx) Done() <-chan struct{}       { return c.done }
func (c *verifCtx) Err() error                  { return verifCanceled }
func (c *verifCtx) Value(key any) any           { return nil }

var _ context.Context = (*verifCtx)(nil)

func verifWithContext(p *interp, cancelled bool, ops int) *verifCtx {
	ctx := &verifCtx{done: make(chan struct{})}
	if cancelled {
		close(ctx.done)
	}
	p.checkCtx = true
	p.ctx = ctx
	p.ctxDone = ctx.Done()
	p.ctxOps = ops
	return ctx
}

// the poll precedes the dispatch of every opcode: with the counter at the threshold and the context
// done, execute returns the context's error and the interpreter state is untouched
func VerifC15PollBeforeDispatch() {
	prog := verifParse(`function f(a) { return a } BEGIN { x = 1; arr[1] = 2; f(3) }`)
	p := newInterp(prog)
	verifWithContext(p, true, checkContextOps-1)
	op := compiler.Opcode(verifIntRange(0, int(compiler.EndOpcode)))
	code := []compiler.Opcode{op, 0, 0, 0, 0, 0, 0, 0}
	p.push(num(1))
	p.push(num(2))
	p.push(num(3))
	sp0 := p.sp
	err := p.execute(code)
	verifReach("returned")
	verifAssert(err == verifCanceled, "a cancelled context was not reported before the next instruction was dispatched")
	verifAssert(p.sp == sp0 && p.stack[0].n == 1 && p.stack[1].n == 2 && p.stack[2].n == 3 && len(p.arrays[0]) == 0 && p.globals[0].typ == typeNull,
		"the interpreter state changed although the context was already cancelled")
}

// counter invariant: one checkContext call either polls (and resets the counter) or leaves it below the threshold
func VerifC15Counter() {
	prog := verifParse(`BEGIN { x = 1 }`)
	p := newInterp(prog)
	c := verifInt()
	verifAssume(c >= 0 && c < checkContextOps)
	cancelled := verifBool()
	verifWithContext(p, cancelled, c)
	err := p.checkContext()
	if c+1 < checkContextOps {
		verifAssert(err == nil && p.ctxOps == c+1, "below the threshold checkContext must only count")
	} else {
		verifAssert(p.ctxOps == 0, "at the threshold the counter must be reset")
		verifAssert((err == verifCanceled) == cancelled && (err == nil) == !cancelled, "at the threshold the context must be polled and its error returned iff it is done")
	}
	// nested execute calls share the counter (it lives in the interpreter), so at most checkContextOps
	// dispatches separate two polls whatever the nesting
	verifAssert(p.ctxOps >= 0 && p.ctxOps < checkContextOps, "counter left outside [0, threshold)")
}

// a context that is never cancelled is invisible: same final state as without context checking,
// wherever the polls fall (the counter starts anywhere)
func VerifC15Invisible() {
	progs := []string{
		`BEGIN { for (i = 0; i < 3; i++) s = s + a; r = (s < b) ? 1 : 2 }`,
		`function f(n) { if (n <= 0) return a; return f(n - 1) + 1 } BEGIN { r = f(2) }`,
		`BEGIN { arr["k"] = a; for (k in arr) r = arr[k] + b }`,
	}
	src := progs[verifIntRange(0, len(progs)-1)]
	a, b := verifFloat64(), verifFloat64()
	c := verifInt()
	verifAssume(c >= 0 && c < checkContextOps)
	env := verifEnv{vars: map[string]value{"a": num(a), "b": num(b)}}
	p1, e1 := verifExecEnv(src, env)
	prog := verifParse(src)
	p2 := newInterp(prog)
	for name, v := range env.vars {
		if idx, ok := p2.scalarIndexes[name]; ok {
			p2.globals[idx] = v
		}
	}
	verifWithContext(p2, false, c)
	e2 := p2.execute(prog.Compiled.Begin)
	verifAssert(verifSameOutcome(p1, e1, p2, e2, []string{"r", "s", "i"}, "arr", []string{"k"}), "a never-cancelled context changed what the program does")
}

// the context's error is preferred over a secondary error, in BEGIN, the main loop and END
func VerifC15ErrorPreference() {
	progs := []string{`BEGIN { x = 1 / zero }`, `{ x = 1 / zero }`, `END { x = 1 / zero }`, `BEGIN { getline y < "nofile"; x = 1 / zero }`}
	prog := verifParse(progs[verifIntRange(0, len(progs)-1)])
	p := newInterp(prog)
	cfg := &Config{Stdin: bytes.NewReader([]byte("l\n")), Output: &bytes.Buffer{}, Error: &bytes.Buffer{}, Environ: []string{}, NoFileReads: true}
	verifAssert(p.setExecuteConfig(cfg) == nil, "config")
	cancelled := verifBool()
	verifWithContext(p, cancelled, 0)
	_, err := p.executeAll()
	if cancelled {
		verifAssert(err == verifCanceled, "a secondary error was returned instead of the context's error")
	} else {
		verifAssert(err != nil && err != verifCanceled, "the run-time error was lost")
	}
}

// child processes are started with the context exactly when context checking is on
func VerifC15ShellContext() {
	prog := verifParse(`BEGIN { }`)
	p := newInterp(prog)
	p.shellCommand = []string{"/nonexistent/gosym-no-shell"}
	withCtx := verifBool()
	if withCtx {
		verifWithContext(p, false, 0)
	}
	cmd := p.execShell("cmd")
	verifAssert((cmd.Cancel != nil) == withCtx, "execShell must use CommandContext exactly when a context is being checked")
}
