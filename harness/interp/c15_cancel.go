package interp

import (
	"bytes"
	"context"
	"errors"
	"strings"
	"time"

	"github.com/benhoyt/goawk/internal/compiler"
	"github.com/benhoyt/goawk/parser"
)

// C15 — cancellation stops execution within a bounded number of steps and is otherwise invisible.

var verifCanceled = errors.New("context canceled (harness context)")

type verifCtx struct{ done chan struct{} }

func (c *verifCtx) Deadline() (time.Time, bool) { return time.Time{}, false }
func (c *verifCtx) Done() <-chan struct{}       { return c.done }
func (c *verifCtx) Err() error                  { return verifCanceled }
func (c *verifCtx) Value(key any) any           { return nil }

var _ context.Context = (*verifCtx)(nil)

func verifWithContext(p *interp, cancelled bool, ops int) *verifCtx {
	ctx := &verifCtx{done: make(chan struct{})}
	if cancelled {
		close(ctx.done)
	}
	p.checkCtx = true
	p.ctx = ctx
	p.ctxDone = ctx.Done()
	p.ctxOps = ops
	return ctx
}

// the poll precedes the dispatch of every opcode: with the counter at the threshold and the context
// done, execute returns the context's error and the interpreter state is untouched
func VerifC15PollBeforeDispatch() {
	prog := verifParse(`function f(a) { return a } BEGIN { x = 1; arr[1] = 2; f(3) }`)
	p := newInterp(prog)
	verifWithContext(p, true, checkContextOps-1)
	op := compiler.Opcode(verifIntRange(0, int(compiler.EndOpcode)))
	code := []compiler.Opcode{op, 0, 0, 0, 0, 0, 0, 0}
	p.push(num(1))
	p.push(num(2))
	p.push(num(3))
	sp0 := p.sp
	err := p.execute(code)
	verifReach("returned")
	verifAssert(err == verifCanceled, "a cancelled context was not reported before the next instruction was dispatched")
	verifAssert(p.sp == sp0 && p.stack[0].n == 1 && p.stack[1].n == 2 && p.stack[2].n == 3 && len(p.arrays[0]) == 0 && p.globals[0].typ == typeNull,
		"the interpreter state changed although the context was already cancelled")
}

// bounded latency: with the context already done and the poll counter anywhere in [0, threshold), every kind of
// program stops with the context's error after at most about a thousand further instructions, also when its
// blocks are left through next, return, exit or break (the counter is shared by nested executions)
func VerifC15Bounded() {
	progs := []string{
		`BEGIN { while (1) n++ }`,
		`function f() { n++; return } BEGIN { while (1) f() }`,
		`function f(d) { n++; if (d > 0) f(d - 1); return d } BEGIN { while (1) f(3) }`,
		`BEGIN { for (i = 0; i < 5; i++) a[i]; while (1) for (k in a) { n++; if (k == 2) break } }`,
		`BEGIN { do { n++; if (n % 2) continue } while (1) }`,
	}
	src := progs[verifIntRange(0, len(progs)-1)]
	prog := verifParse(src)
	p := newInterp(prog)
	c := []int{0, 1, checkContextOps / 2, checkContextOps - 2, checkContextOps - 1}[verifIntRange(0, 4)]
	if verifBound(0, 1) == 1 {
		c = verifIntRange(0, 26) * 37 // thorough: the counter anywhere in the interval, in steps of 37
	}
	verifWithContext(p, true, c)
	err := p.execute(prog.Compiled.Begin)
	verifReach("stopped")
	verifAssert(err == verifCanceled, "a cancelled context did not stop the program with the context's error")
	verifAssert(verifGlobal(p, "n").n <= checkContextOps, "the program kept running for more than the polling interval after the context was cancelled")
}

// the same in the main loop: rules that end with next (or call a function that does) over many records
func VerifC15BoundedRecords() {
	progs := []string{
		`{ n++; next }`,
		`function f() { n++; next } { f() }`,
		`{ n++ } END { while (1) m++ }`,
	}
	src := progs[verifIntRange(0, len(progs)-1)]
	prog := verifParse(src)
	p := newInterp(prog)
	var input []byte
	for i := 0; i < 1200; i++ {
		input = append(input, 'r', '\n')
	}
	verifAssert(p.setExecuteConfig(&Config{Stdin: bytes.NewReader(input), Output: &bytes.Buffer{}, Error: &bytes.Buffer{}, Environ: []string{}}) == nil, "config")
	c := verifIntRange(0, 1) * (checkContextOps - 1)
	verifWithContext(p, true, c)
	_, err := p.executeAll()
	verifAssert(err == verifCanceled, "a cancelled context did not stop the main loop with the context's error")
	verifAssert(verifGlobal(p, "n").n <= checkContextOps && verifGlobal(p, "m").n <= checkContextOps, "the main loop kept processing records for more than the polling interval after the context was cancelled")
}

// a context that is never cancelled is invisible: same final state as without context checking,
// wherever the polls fall (the counter starts anywhere)
func VerifC15Invisible() {
	progs := []string{
		`BEGIN { for (i = 0; i < 3; i++) s = s + a; r = (s < b) ? 1 : 2 }`,
		`function f(n) { if (n <= 0) return a; return f(n - 1) + 1 } BEGIN { r = f(2) }`,
		`BEGIN { arr["k"] = a; for (k in arr) r = arr[k] + b }`,
	}
	src := progs[verifIntRange(0, len(progs)-1)]
	a, b := verifFloat64(), verifFloat64()
	c := verifInt()
	verifAssume(c >= 0 && c < checkContextOps)
	env := verifEnv{vars: map[string]value{"a": num(a), "b": num(b)}}
	p1, e1 := verifExecEnv(src, env)
	prog := verifParse(src)
	p2 := newInterp(prog)
	for name, v := range env.vars {
		if idx, ok := p2.scalarIndexes[name]; ok {
			p2.globals[idx] = v
		}
	}
	verifWithContext(p2, false, c)
	e2 := p2.execute(prog.Compiled.Begin)
	verifAssert(verifSameOutcome(p1, e1, p2, e2, []string{"r", "s", "i"}, "arr", []string{"k"}), "a never-cancelled context changed what the program does")
}

// the context's error is preferred over a secondary error, in BEGIN, the main loop and END
func VerifC15ErrorPreference() {
	progs := []string{`BEGIN { x = 1 / zero }`, `{ x = 1 / zero }`, `END { x = 1 / zero }`, `BEGIN { getline y < "nofile"; x = 1 / zero }`}
	prog := verifParse(progs[verifIntRange(0, len(progs)-1)])
	p := newInterp(prog)
	cfg := &Config{Stdin: bytes.NewReader([]byte("l\n")), Output: &bytes.Buffer{}, Error: &bytes.Buffer{}, Environ: []string{}, NoFileReads: true}
	verifAssert(p.setExecuteConfig(cfg) == nil, "config")
	cancelled := verifBool()
	verifWithContext(p, cancelled, 0)
	_, err := p.executeAll()
	if cancelled {
		verifAssert(err == verifCanceled, "a secondary error was returned instead of the context's error")
	} else {
		verifAssert(err != nil && err != verifCanceled, "the run-time error was lost")
	}
}

// child processes are started with the context exactly when context checking is on (also when a stale
// context from an earlier ExecuteContext is still stored in the interpreter), for every way of starting one
func VerifC15ShellContext() {
	stmts := []string{`system("cmd")`, `print "x" | "cmd"`, `"cmd" | getline x`, `printf "x" | "cmd"; close("cmd")`}
	prog := verifParse(`BEGIN { ` + stmts[verifIntRange(0, len(stmts)-1)] + ` }`)
	p := newInterp(prog)
	verifAssert(p.setExecuteConfig(&Config{Stdin: bytes.NewReader(nil), Output: &bytes.Buffer{}, Error: &bytes.Buffer{}, Environ: []string{}, ShellCommand: []string{"/nonexistent/gosym-no-shell"}}) == nil, "config")
	mode := verifIntRange(0, 2) // 0: no context at all, 1: context being checked, 2: stale context, checking off (plain Execute after ExecuteContext)
	switch mode {
	case 1:
		verifWithContext(p, false, 0)
	case 2:
		verifWithContext(p, true, 0)
		p.checkCtx = false
	}
	err := p.execute(prog.Compiled.Begin)
	verifAssert(err == nil, "program failed")
	log := verifEventLog()
	if verifInEngine() {
		verifAssert(strings.Contains(log, "command:") && strings.Contains(log, "commandcontext") == (mode == 1), "a child process must be started with the context exactly when the context is being checked")
		// apart from the context a command is set up the same way with and without one
		verifAssert(strings.Contains(log, "waitdelay:250000000"), "a child process was started without the wait delay that keeps inherited pipes from blocking the run (with a context and without one the set-up must be the same)")
	}
}

// a context with a deadline far in the future whose Done channel is closed all the same (cancelled explicitly)
type verifDeadlineCtx struct{ verifCtx }

func (c *verifDeadlineCtx) Deadline() (time.Time, bool) { return time.Unix(1<<40, 0), true }

// the public entry points: ExecuteContext on a fresh and on a reused Interpreter, contexts with and without a deadline
func VerifC15PublicAPI() {
	prog, perr := parser.ParseProgram([]byte(`BEGIN { for (i = 0; i < lim; i++) n++; for (j = 0; j < forever; j++) m++ }`), nil)
	verifAssert(perr == nil, "program does not parse")
	ip, _ := New(prog)
	cfg := func(lim, forever string) *Config {
		return &Config{Stdin: bytes.NewReader(nil), Output: &bytes.Buffer{}, Error: &bytes.Buffer{}, Environ: []string{}, Vars: []string{"lim", lim, "forever", forever, "n", "0", "m", "0"}}
	}
	mkctx := func(cancelled bool, deadline bool) context.Context {
		c := verifCtx{done: make(chan struct{})}
		if cancelled {
			close(c.done)
		}
		if deadline {
			return &verifDeadlineCtx{c}
		}
		return &c
	}
	scenario := verifIntRange(0, 3)
	deadline := verifIntRange(0, 1) == 1
	switch scenario {
	case 0:
		// an earlier, longer run under a context that is still alive must not shadow the next run's context
		_, err1 := ip.ExecuteContext(mkctx(false, verifIntRange(0, 1) == 1), cfg("1200", "0"))
		verifAssert(err1 == nil, "a run under a live context failed")
		_, err2 := ip.ExecuteContext(mkctx(true, deadline), cfg("0", "4000"))
		verifReach("second-run-returned")
		verifAssert(err2 == verifCanceled && ip.interp.globals[ip.interp.scalarIndexes["m"]].n <= checkContextOps, "on a reused Interpreter the second run's cancelled context was not noticed within the polling interval")
	case 1:
		_, err := ip.ExecuteContext(mkctx(true, deadline), cfg("0", "4000"))
		verifAssert(err == verifCanceled && ip.interp.globals[ip.interp.scalarIndexes["m"]].n <= checkContextOps, "a cancelled context (with or without a deadline that has not passed) did not stop the run within the polling interval")
	case 2:
		// never cancelled: same result as Execute
		_, err := ip.ExecuteContext(mkctx(false, deadline), cfg("2500", "0"))
		verifAssert(err == nil && ip.interp.globals[ip.interp.scalarIndexes["n"]].n == 2500, "a run under a context that is never cancelled did not complete like a plain run")
	default:
		// a cancelled run followed by a plain Execute
		ip.ExecuteContext(mkctx(true, deadline), cfg("0", "4000"))
		_, err := ip.Execute(cfg("1500", "0"))
		verifAssert(err == nil && ip.interp.globals[ip.interp.scalarIndexes["n"]].n == 1500, "a plain Execute after a cancelled ExecuteContext was interrupted")
	}
}
