package interp

import (
	"bytes"

	"github.com/benhoyt/goawk/parser"
)

// C19 (second half) — executing a parsed Program never modifies it.  The Program returned by
// the real parser is frozen by the engine (every heap object reachable from it); any store
// into it during newInterp / setExecuteConfig / executeAll is reported as a violation with
// the offending path.  The observable form (printed program + disassembly) is compared too.

func verifProgramImage(src string) string {
	prog := verifParse(src)
	var buf bytes.Buffer
	_ = prog.Disassemble(&buf)
	return prog.String() + "\n" + buf.String()
}

func VerifC19Immutable() {
	progs := []string{
		`function f(a, n) { a[n] = n; return n > 0 ? f(a, n - 1) : 0 } BEGIN { f(arr, 2); for (k in arr) s += k; printf "%s %d\n", s, length(arr) }`,
		`BEGIN { FS = ","; OFS = "-" } { $2 = toupper($2); n += NF; if ($1 ~ /^a/) c++; print } END { print n, c; x = sprintf("%5.2f", n / 3); print x }`,
		`{ sub(/b/, "X"); gsub(/c+/, "&&", $1); split($0, parts, " "); print parts[1], substr($0, 2, 3), index($0, "a"), match($0, /a+/), RSTART, RLENGTH }`,
		`BEGIN { while ((getline line) > 0) n++; print n; x["a"] = 1; delete x["a"]; print length(x); exit 2 }`,
		`$0 == "a", $0 == "b" { n++ } $0 ~ /c/, 0 { m++ } END { print n, m }`, // range patterns: one may stay open at the end of a run
	}
	src := progs[verifIntRange(0, len(progs)-1)]
	before := verifProgramImage(src)
	snap := verifSnapshot(verifParse(src).Compiled)
	var lastInput []byte
	lastOut := ""
	for run := 0; run < 2; run++ {
		input := verifBytes(verifIntRange(0, verifBound(2, 2))) // three input bytes did not finish within the thorough time limit
		for _, b := range input {
			verifAssume(b == 'a' || b == 'b' || b == 'c' || b == ',' || b == '\n' || b == ' ')
			if src == progs[4] {
				verifAssume(b != ',' && b != ' ')
			}
		}
		var out bytes.Buffer
		cfg := &Config{Stdin: bytes.NewReader(input), Output: &out, Error: &bytes.Buffer{}, Environ: []string{}}
		_, err, _ := verifRunProgram(src, cfg, nil)
		verifAssert(err == nil, "template program failed")
		lastInput, lastOut = input, out.String()
	}
	verifReach("ran-twice")
	verifAssert(verifSnapshot(verifParse(src).Compiled) == snap, "executing a Program modified its compiled form")
	// the second execution of the shared Program behaves like the first execution of a freshly parsed one
	fresh, perr := parser.ParseProgram([]byte(src), nil)
	verifAssert(perr == nil, "template does not parse")
	var fout bytes.Buffer
	q := newInterp(fresh)
	verifAssert(q.setExecuteConfig(&Config{Stdin: bytes.NewReader(lastInput), Output: &fout, Error: &bytes.Buffer{}, Environ: []string{}}) == nil, "config")
	_, ferr := q.executeAll()
	verifAssert(ferr == nil && fout.String() == lastOut, "a Program that was executed before behaves differently from a freshly parsed one (state leaked into the shared Program)")
	verifAssert(verifProgramImage(src) == before, "executing a Program changed it (printed form or compiled code differs after two runs)")
}
