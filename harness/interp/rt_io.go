package interp

// I/O environment intrinsics (package interp only).  The engine intercepts these by name and
// models files and processes in memory; the bodies below are the native replay semantics
// (real temporary files, real /bin/sh children).

import (
	"fmt"
	"io"
	"os"
	"os/exec"
)

var verifTempFiles []string

// verifNewFile returns an open file whose readable content is the given bytes and whose
// written bytes can be inspected with verifFileData.
func verifNewFile(content []byte) *os.File {
	f, err := os.CreateTemp("", "gosym-file-")
	if err != nil {
		panic(err)
	}
	verifTempFiles = append(verifTempFiles, f.Name())
	if len(content) > 0 {
		f.Write(content)
		f.Seek(0, io.SeekStart)
	}
	return f
}

// verifFileData returns everything written to f so far (for files created empty).
func verifFileData(f *os.File) []byte {
	b, _ := os.ReadFile(f.Name())
	return b
}

func verifFileClosed(f *os.File) bool {
	_, err := f.Seek(0, io.SeekCurrent)
	return err != nil
}

func verifFileID(f *os.File) int { return int(f.Fd()) }

// verifFileFailAt makes the n-th write to f fail (engine only; natively a no-op).
func verifFileFailAt(f *os.File, n int) {}

// verifEvent records a harness-level event in the engine's event list.
var verifNativeEvents []string

func verifEvent(kind string) { verifNativeEvents = append(verifNativeEvents, kind) }

// verifEventLog returns all events so far as "e1;e2;...": harness events plus, in the engine, the
// modelled environment events (osopen:NAME, write:ID, read:ID, close:ID, command:EXE,
// commandcontext, start, wait).
func verifEventLog() string {
	s := ""
	for _, e := range verifNativeEvents {
		s += e + ";"
	}
	return s
}

// verifPipeOutput sets what the next modelled child process writes to its standard output.
func verifPipeOutput(b []byte) {}

// verifWaitStatus returns a command whose Wait reports the given raw wait status.  Natively a
// real child is started that exits / kills itself accordingly (the core-dump bit cannot be forced).
func verifWaitStatus(ws uint32) *exec.Cmd {
	var script string
	switch {
	case ws&0x7f == 0 && ws>>16 == 0:
		script = fmt.Sprintf("exit %d", (ws>>8)&0xff)
	case ws&0x7f != 0x7f && ws&0x80 == 0 && ws>>8 == 0 && (ws&0x7f == 9 || ws&0x7f == 15 || ws&0x7f == 2 || ws&0x7f == 1):
		script = fmt.Sprintf("kill -%d $$", ws&0x7f)
	default:
		panic(verifNotReplayable{}) // core dumps, stops and exotic signals cannot be produced on demand
	}
	cmd := exec.Command("/bin/sh", "-c", script)
	if err := cmd.Start(); err != nil {
		panic(err)
	}
	return cmd
}

func verifCleanupFiles() {
	for _, n := range verifTempFiles {
		os.Remove(n)
	}
	verifTempFiles = nil
}

// verifPipeWriteFails makes writes to the stdin pipe of the next modelled child fail (engine only).
// Natively the situation (a child that exits before reading) is a race and cannot be produced on demand.
func verifPipeWriteFails(on bool) { panic(verifNotReplayable{}) }
