package interp

import (
	"bytes"
	"os"

	"github.com/benhoyt/goawk/parser"
)

// C14 (also run for C12 and C13) — every setting of an execution configuration is that run's setting: on a reused
// Interpreter (public New + Execute) the second run, configured differently from the first in exactly one respect,
// behaves like a run on a fresh Interpreter with the second configuration.

type verifFlipEnv struct {
	out    *bytes.Buffer
	files  []*os.File // files handed out by the custom OpenFile
	names  []string
	custom bool
}

func (e *verifFlipEnv) open(name string, flag int, perm os.FileMode) (*os.File, error) {
	var f *os.File
	if flag == os.O_RDONLY {
		f = verifNewFile([]byte("cust\n"))
	} else {
		f = verifNewFile(nil)
	}
	e.files = append(e.files, f)
	e.names = append(e.names, name)
	return f, nil
}

// what a run left behind, as text
func (e *verifFlipEnv) observed() string {
	s := "out=" + e.out.String()
	for i, f := range e.files {
		s += "|" + e.names[i] + "=" + string(verifFileData(f))
	}
	return s
}

const verifFlipProgram = `BEGIN { l = ""; r = 0; printf "%c|", "\303\244z"; printf "%c|", 228; print ENVIRON["K"]; r = (getline l < "G"); print r, l; print "w" v > "H"; close("H"); printf "%d", 1 }
{ print "rec", $0, NF }
/^a/, /^never/ { print "range", NR }
END { print NR }`

// setting k of run number run (0 or 1); dim is the one dimension in which the two runs differ, flip its direction
// verifFlipDim2 is a second dimension flipped together with the first (thorough tier; -1 = none)
var verifFlipDim2 = -1

func verifFlipConfig(dim int, flip bool, run int, stdin []byte) (*Config, *verifFlipEnv) {
	second := (run == 1) != flip // whether this run takes the "B" value of the flipped dimension
	on := func(d int) bool { return (d == dim || d == verifFlipDim2) && second }
	env := &verifFlipEnv{out: &bytes.Buffer{}}
	cfg := &Config{Stdin: bytes.NewReader(stdin), Output: env.out, Error: &bytes.Buffer{}, Environ: []string{"K", "k0"}, Vars: []string{"v", "0"}}
	cfg.Chars = on(0)
	if !on(1) {
		cfg.OpenFile = env.open
		env.custom = true
	}
	cfg.NoFileReads = on(2)
	cfg.NoFileWrites = on(3)
	if on(4) {
		cfg.Environ = []string{"K", "k1"}
	}
	if on(5) {
		cfg.NoExec = true
	}
	if on(6) {
		cfg.InputMode = CSVMode
	}
	if on(7) {
		cfg.OutputMode = TSVMode
	}
	if on(8) {
		cfg.Args = []string{"-"}
	}
	if on(9) {
		cfg.Output = nil // the process's standard output
	}
	return cfg, env
}

func VerifC14ConfigFlip() {
	dim := verifIntRange(0, 9)
	verifFlipDim2 = -1
	if verifBound(0, 1) == 1 {
		verifFlipDim2 = (dim + verifIntRange(0, 3)) % 10 // thorough: the setting alone and together with each of the next three
	}
	flip := verifIntRange(0, 1) == 1
	in1 := []byte("a b\nc,d\n")
	in2 := append(verifBytes(verifIntRange(1, 2)), '\n')
	for _, b := range in2 {
		verifAssume(b != '"' && b != '\r' && b != 0xEF)
	}
	prog, err := parser.ParseProgram([]byte(verifFlipProgram), nil)
	verifAssert(err == nil, "program does not parse")
	reused, _ := New(prog)
	cfg1, env1 := verifFlipConfig(dim, flip, 0, in1)
	reused.Execute(cfg1)
	out1 := env1.out.String()
	cfg2, env2 := verifFlipConfig(dim, flip, 1, in2)
	logBefore := len(verifEventLog())
	st2, err2 := reused.Execute(cfg2)
	log2 := verifEventLog()[logBefore:]

	fresh, _ := New(prog)
	cfgF, envF := verifFlipConfig(dim, flip, 1, in2)
	stF, errF := fresh.Execute(cfgF)

	verifReach("both-ran")
	verifAssert(env1.out.String() == out1, "the second run on a reused Interpreter wrote to the first run's standard output")
	verifAssert((err2 == nil) == (errF == nil) && st2 == stF, "the second run on a reused Interpreter ends differently (status, error) from the same run on a fresh one")
	if err2 != nil && errF != nil {
		verifAssert(err2.Error() == errF.Error(), "the second run on a reused Interpreter fails with a different error than the same run on a fresh one")
	}
	verifAssert(env2.observed() == envF.observed(), "the second run on a reused Interpreter produced different standard output or file contents than the same run on a fresh one (a setting of the first run survived)")
	if env2.custom && verifInEngine() {
		verifAssert(!contains(log2, "osopen:"), "a file was opened directly although the run configured an OpenFile function")
	}
	if env2.custom {
		verifAssert(len(env2.files) == len(envF.files), "the configured OpenFile function was not used for every file the second run opened")
	}
}

func contains(s, sub string) bool {
	for i := 0; i+len(sub) <= len(s); i++ {
		if s[i:i+len(sub)] == sub {
			return true
		}
	}
	return false
}
