package interp

import (
	"bufio"
	"bytes"
	"encoding/csv"
	"errors"
	"os"
)

// C13 — output reaches each destination completely, in order, exactly once; a failing write to
// standard output makes the run fail; close() reports the command's exit status.

var verifErrInjected = errors.New("injected write failure")

// a standard-output sink whose failAt-th Write fails (0 = never)
type verifFailWriter struct {
	failAt, n int
	failed    bool
	data      []byte
}

func (w *verifFailWriter) Write(p []byte) (int, error) {
	w.n++
	if w.failAt != 0 && w.n >= w.failAt {
		w.failed = true
		return 0, verifErrInjected
	}
	w.data = append(w.data, p...)
	return len(p), nil
}

func verifRunProgram(src string, cfg *Config, vars map[string]value) (int, error, *interp) {
	prog := verifParse(src)
	p := newInterp(prog)
	if err := p.setExecuteConfig(cfg); err != nil {
		panic("config: " + err.Error())
	}
	for name, v := range vars {
		if idx, ok := p.scalarIndexes[name]; ok {
			p.globals[idx] = v
		}
	}
	st, err := p.executeAll()
	return st, err, p
}

// a write failure injected at every write (and flush) position of standard output, buffered or not
func VerifC13Fault() {
	endings := []string{"", "; exit 3", "; x = 1 / zero"}
	// the long constant makes a 16-byte bufio.Writer flush in the middle of the run as well as at the end
	src := `BEGIN { print a "0123456789abcdef"; printf "%s", b; print c` + endings[verifIntRange(0, 2)] + ` }`
	if verifIntRange(0, 1) == 1 {
		// only bare print (the current record) and a print to /dev/stdout: the paths that write a line as it is
		src = `BEGIN { $0 = a "0123456789abcdef"; print; $0 = b; print; print > "/dev/stdout"; $0 = c "0123456789abcdef"; print` + endings[verifIntRange(0, 2)] + ` }`
	}
	buffered := verifIntRange(0, 1) == 1
	vars := map[string]value{"a": str(verifString(1)), "b": str(verifString(1)), "c": str(verifString(1))}
	run := func(failAt int) (*verifFailWriter, error) {
		w := &verifFailWriter{failAt: failAt}
		cfg := &Config{Stdin: bytes.NewReader(nil), Error: &bytes.Buffer{}, Environ: []string{}}
		if buffered {
			cfg.Output = bufio.NewWriterSize(w, 16)
		} else {
			cfg.Output = w
		}
		_, err, _ := verifRunProgram(src, cfg, vars)
		return w, err
	}
	clean, _ := run(0)
	failAt := verifIntRange(1, 5)
	w, err := run(failAt)
	verifReach("ran")
	// recorded finding: only the very last flush (performed when the run is being closed down) is ignored
	verifKnown("C13-final-flush-error-ignored", buffered && failAt == clean.n)
	if w.failed {
		verifAssert(err != nil, "a write to standard output failed but the run reported success")
	}
}

// file destinations: truncate once per open, append otherwise, one name = one stream until close,
// everything delivered and every file closed by the end of the run (normal, exit, run-time error)
type verifDisk struct {
	handles   []*os.File
	names     []string
	collected []int             // bytes of each handle already accounted for in content
	content   map[string][]byte // what the files hold (truncation applied at open time)
}

// collect accounts for everything written so far through the handles of the given name ("" = all)
func (d *verifDisk) collect(name string) {
	for i, f := range d.handles {
		if name != "" && d.names[i] != name {
			continue
		}
		data := verifFileData(f)
		d.content[d.names[i]] = append(d.content[d.names[i]], data[d.collected[i]:]...)
		d.collected[i] = len(data)
	}
}

// what print writes for one value in the given output mode (reference: the real encoding/csv writer)
func verifEncodeRecord(mode IOMode, payload string) []byte {
	if mode == DefaultMode {
		return append([]byte(payload), '\n')
	}
	var b bytes.Buffer
	w := csv.NewWriter(&b)
	if mode == TSVMode {
		w.Comma = '\t'
	}
	w.Write([]string{payload, "z"})
	w.Flush()
	return b.Bytes()
}

func VerifC13Order() {
	mode := []IOMode{DefaultMode, CSVMode, TSVMode}[verifIntRange(0, 2)]
	maxOps := verifBound(3, 3) // four operations did not finish within the thorough time limit
	if mode != DefaultMode {
		maxOps = verifBound(2, 2) // the CSV encoder forks on every payload byte: shorter histories in these modes
	}
	nops := verifIntRange(1, maxOps)
	pre := verifString(1) // both files hold this byte before the run
	disk := &verifDisk{content: map[string][]byte{"A": []byte(pre), "B": []byte(pre)}}
	// reference model
	model := map[string][]byte{"A": []byte(pre), "B": []byte(pre)}
	open := map[string]bool{}
	var stdout []byte
	src := "BEGIN { "
	vars := map[string]value{}
	for i := 0; i < nops; i++ {
		name := []string{"A", "B"}[verifIntRange(0, 1)]
		v := string([]byte{byte('p' + i)})
		payload := verifString(1)
		verifAssume(payload[0] != '\r')
		vars[v] = str(payload)
		args := v
		rec := verifEncodeRecord(mode, payload)
		if mode != DefaultMode {
			args = v + ", \"z\""
		}
		switch verifIntRange(0, 4) {
		case 0:
			src += "print " + args + " > \"" + name + "\"; "
			if !open[name] {
				model[name] = nil
				open[name] = true
			}
			model[name] = append(model[name], rec...)
		case 1:
			src += "print " + args + " >> \"" + name + "\"; "
			open[name] = true
			model[name] = append(model[name], rec...)
		case 2:
			src += "close(\"" + name + "\"); "
			open[name] = false
		case 3:
			src += "fflush(\"" + name + "\"); "
		default:
			src += "print " + args + "; "
			stdout = append(stdout, rec...)
		}
	}
	src += []string{"", "exit 1; ", "zz = 1 / zero; "}[verifIntRange(0, 2)] + "}"
	var out bytes.Buffer
	cfg := &Config{Stdin: bytes.NewReader(nil), Output: &out, Error: &bytes.Buffer{}, Environ: []string{}, OutputMode: mode,
		OpenFile: func(name string, flag int, perm os.FileMode) (*os.File, error) {
			disk.collect(name)
			if flag&os.O_TRUNC != 0 {
				disk.content[name] = nil
			}
			f := verifNewFile(nil)
			disk.handles = append(disk.handles, f)
			disk.names = append(disk.names, name)
			disk.collected = append(disk.collected, 0)
			return f, nil
		}}
	_, _, _ = verifRunProgram(src, cfg, vars)
	for _, f := range disk.handles {
		verifAssert(verifFileClosed(f), "a file opened by the program is still open after the run ended")
	}
	disk.collect("")
	verifReach("compared")
	verifAssert(string(disk.content["A"]) == string(model["A"]) && string(disk.content["B"]) == string(model["B"]),
		"file output differs from the destination model (> truncates once per open, >> never, one name is one stream until close, everything written is delivered by the end of the run)")
	verifAssert(out.String() == string(stdout), "standard output differs from what the program printed, in order")
}

// close() of a command reports exit status / 256+signal / 512+signal (core dump), -1 otherwise
func VerifC13ExitStatus() {
	ws := uint32(verifInt())
	verifAssume(ws < 0x10000)
	cmd := verifWaitStatus(ws)
	code, err := waitExitCode(cmd)
	sig := int(ws & 0x7f)
	switch {
	case ws&0x7f == 0: // exited
		if ws>>8 == 0 {
			verifAssert(code == 0 && err == nil, "a command that exited with status 0 must report 0")
		} else {
			verifAssert(code == int(ws>>8)&0xff && err == nil, "close() must report the command's exit status")
		}
	case ws&0xff == 0x7f: // stopped: not a termination
		verifAssert(code == -1, "a wait status that is neither exit nor signal must report -1")
	case sig != 0x7f && ws&0x80 != 0:
		verifAssert(code == 512+sig && err == nil, "a command killed by a signal with core dump must report 512+signal")
	case sig != 0x7f:
		verifAssert(code == 256+sig && err == nil, "a command killed by a signal must report 256+signal")
	}
}

// output printed before a command starts is delivered before the command's own output, and the
// command's status comes back from system() / close()
func VerifC13Spawn() {
	w := &verifFailWriter{}
	out := bufio.NewWriterSize(w, 64)
	payload := verifString(1)
	progs := []string{
		`BEGIN { print a; r = system("cmd"); print "z" }`,
		`BEGIN { print a; print "q" | "cmd"; r = close("cmd"); print "z" }`,
		`BEGIN { print a; "cmd" | getline x; r = close("cmd"); print "z" }`,
	}
	pi := verifIntRange(0, 2)
	cfg := &Config{Stdin: bytes.NewReader(nil), Output: out, Error: &bytes.Buffer{}, Environ: []string{}, ShellCommand: []string{"/nonexistent/gosym-no-shell"}}
	st, err, p := verifRunProgram(progs[pi], cfg, map[string]value{"a": str(payload)})
	verifAssert(err == nil && st == 0, "program with a child command failed")
	verifAssert(string(w.data) == payload+"\nz\n", "standard output lost or reordered data around a child command")
	verifAssert(len(p.outputStreams) == 0 && len(p.inputStreams) == 0, "close() left the command stream registered")
}

// a reused interpreter delivers the second run's file output like a fresh one: a destination left open by
// the first run is opened (and truncated) again
func VerifC13Reuse() {
	variant := verifIntRange(0, 2)
	prog := verifParse([]string{
		`BEGIN { print a > "A"; print b >> "B"; if (c) close("A") }`,
		`BEGIN { print b >> "B"; print a > "A"; if (c) close("A") }`,
		`BEGIN { print a > "A"; if (c) close("A"); b = b }`,
	}[variant])
	p := newInterp(prog)
	disk := &verifDisk{content: map[string][]byte{}}
	opens := 0
	open := func(name string, flag int, perm os.FileMode) (*os.File, error) {
		opens++
		disk.collect(name)
		if flag&os.O_TRUNC != 0 {
			disk.content[name] = nil
		}
		f := verifNewFile(nil)
		disk.handles = append(disk.handles, f)
		disk.names = append(disk.names, name)
		disk.collected = append(disk.collected, 0)
		return f, nil
	}
	want := map[string][]byte{}
	for run := 0; run < 2; run++ {
		a, b := verifString(1), verifString(1)
		closeA := verifIntRange(0, 1)
		p.resetCore()
		verifAssert(p.setExecuteConfig(&Config{Stdin: bytes.NewReader(nil), Output: &bytes.Buffer{}, Error: &bytes.Buffer{}, Environ: []string{}, OpenFile: open}) == nil, "config")
		p.globals[p.scalarIndexes["a"]] = str(a)
		p.globals[p.scalarIndexes["b"]] = str(b)
		p.globals[p.scalarIndexes["c"]] = num(float64(closeA))
		_, err := p.executeAll()
		verifAssert(err == nil, "run failed")
		want["A"] = append([]byte(a), '\n')
		if variant != 2 {
			want["B"] = append(append(want["B"], b...), '\n')
		}
	}
	for _, f := range disk.handles {
		verifAssert(verifFileClosed(f), "a file opened by the program is still open after the run ended")
	}
	disk.collect("")
	verifAssert((opens == 4 || (variant == 2 && opens == 2)) && string(disk.content["A"]) == string(want["A"]) && string(disk.content["B"]) == string(want["B"]),
		"on a reused interpreter the second run's file output is lost or goes to a stream left over from the first run")
}

// close() of an output command reports the command's status even when the final flush to it fails
func VerifC13CloseStatusAfterFlushError() {
	ws := uint32(verifIntRange(1, 3)) << 8 // the command exits with status 1..3
	prog := verifParse(`BEGIN { print "data" | "cmd"; r = close("cmd") }`)
	p := newInterp(prog)
	verifAssert(p.setExecuteConfig(&Config{Stdin: bytes.NewReader(nil), Output: &bytes.Buffer{}, Error: &bytes.Buffer{}, Environ: []string{}, ShellCommand: []string{"/nonexistent/gosym-no-shell"}}) == nil, "config")
	verifWaitStatus(ws)       // the modelled child exits with this status ...
	verifPipeWriteFails(true) // ... without reading its input: writes to its stdin pipe fail
	err := p.execute(prog.Compiled.Begin)
	verifAssert(err == nil, "program failed")
	verifAssert(verifGlobal(p, "r").n == float64(ws>>8), "close() of a command did not report the command's exit status (the command had exited without reading its input)")
}

// a destination is identified by the spelling of its name: print, close and fflush given the same spelling mean
// the same stream, whether or not a path cleaner would rewrite that spelling
func VerifC13Names() {
	name := []string{"A", "./A", "d/../A", "d//A", "A/.", " A", "a+b", "3.14159"}[verifIntRange(0, 7)]
	numeric := name == "3.14159"
	p, q := verifString(1), verifString(1)
	pre := verifString(1)
	disk := &verifDisk{content: map[string][]byte{name: []byte(pre)}}
	if name == "3.14159" {
		// the destination is a number: its name is the number's string form (CONVFMT), whatever OFMT is
		name = "d"
	}
	progs := []string{
		`BEGIN { print p > @@; r1 = close(@@); print q > @@; r2 = close(@@); r3 = close(@@) }`,
		`BEGIN { print p >> @@; r1 = close(@@); print q >> @@; r2 = fflush(@@); r3 = close("other") }`,
		`BEGIN { print p > @@; r1 = fflush(@@); print q > @@; r2 = close(@@); r3 = fflush(@@) }`,
	}
	pi := verifIntRange(0, 2)
	src := verifReplaceAll(progs[pi], "@@", "\""+name+"\"")
	if numeric {
		src = `BEGIN { OFMT = "%.2f"; d = 3.14159 } ` + verifReplaceAll(progs[pi], "@@", "d")
		name = "3.14159"
	}
	cfg := &Config{Stdin: bytes.NewReader(nil), Output: &bytes.Buffer{}, Error: &bytes.Buffer{}, Environ: []string{},
		OpenFile: func(n string, flag int, perm os.FileMode) (*os.File, error) {
			disk.collect(n)
			if flag&os.O_TRUNC != 0 {
				disk.content[n] = nil
			}
			f := verifNewFile(nil)
			disk.handles = append(disk.handles, f)
			disk.names = append(disk.names, n)
			disk.collected = append(disk.collected, 0)
			return f, nil
		}}
	_, err, ip := verifRunProgram(src, cfg, map[string]value{"p": str(p), "q": str(q)})
	verifAssert(err == nil, "run failed")
	disk.collect("")
	var want string
	var r1, r2, r3 float64
	switch pi {
	case 0:
		want, r1, r2, r3 = q+"\n", 0, 0, -1
	case 1:
		want, r1, r2, r3 = pre+p+"\n"+q+"\n", 0, 0, -1
	default:
		want, r1, r2, r3 = p+"\n"+q+"\n", 0, 0, -1
	}
	verifReach("compared")
	verifAssert(string(disk.content[name]) == want, "the file does not hold what was printed to that name (close did not end the stream, or a later > did not truncate)")
	verifAssert(verifGlobal(ip, "r1").n == r1 && verifGlobal(ip, "r2").n == r2 && verifGlobal(ip, "r3").n == r3, "close / fflush of an open destination did not return 0, or of a name that is not open did not return -1")
	verifAssert(len(disk.content) == 1, "a destination was opened under a name other than the one the program used")
}

func verifReplaceAll(s, old, with string) string {
	out := ""
	for i := 0; i < len(s); {
		if i+len(old) <= len(s) && s[i:i+len(old)] == old {
			out += with
			i += len(old)
		} else {
			out += string(s[i])
			i++
		}
	}
	return out
}
