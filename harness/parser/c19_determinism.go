package parser

// C19 — parsing is deterministic under Go's randomised map iteration: the iteration order of
// each map range executed during ParseProgram is a schedule variable.  One dynamic range
// site at a time is fully permuted (all k! orders of a k-entry map) while the others run in
// insertion order; verdict, error text and position, and the disassembled program must not
// change.

import (
	"bytes"
)

// outcome of one parse under a given map-order schedule
func verifParseOutcome(src string, site int) (string, int) {
	var cfg *ParserConfig
	if len(src) > 9 && src[:9] == "#natives\n" {
		// programs that call Go functions next to AWK functions (native and AWK functions are numbered separately)
		cfg = &ParserConfig{Funcs: map[string]interface{}{"na": verifNatA, "nb": verifNatB, "nc": verifNatC, "g": verifNatB}}
	}
	verifMapOrderSite(site)
	verifMapOrderNondet(true)
	prog, err := ParseProgram([]byte(src), cfg)
	verifMapOrderNondet(false)
	n := verifRangeCount()
	if err != nil {
		return "ERR " + err.Error(), n
	}
	var buf bytes.Buffer
	if derr := prog.Disassemble(&buf); derr != nil {
		return "DISASM-ERR", n
	}
	return prog.String() + "\n" + buf.String(), n
}

func verifNatA(x int) int       { return x + 1 }
func verifNatB(x int) int       { return x + 2 }
func verifNatC(s string) string { return s + "c" }

var verifC19Programs = []string{
	// several independent type errors in uncalled functions
	"function f(a){a[1]; a=1} function g(b){b[1]; b=1} BEGIN{}",
	"function f(a){a[1]; a=1} function g(b){b[1]; b=1} function h(c){c[1]; c=1} BEGIN{ x = 1 }",
	// independent errors in two callees of the same caller
	"function f(a){a[1]; a=1} function g(b){b[1]; b=1} BEGIN{ f(x); g(y) }",
	"function top(){ f(x); g(y); h(z) } function f(a){a[1]; a=1} function g(b){b[1]; b=1} function h(c){c[1]; c=1} BEGIN{ top() }",
	// two stray comma-separated expressions, the later one in a smaller column
	"BEGIN {\n        (a, b)\n (c, d)\n}",
	"BEGIN { x = 1 }\nEND {\n            (p, q)\n    (r, s)\n (t, u)\n}",
	// errors in called functions and in a cycle
	"function f(a){g(a); a[1]} function g(b){f(b); b=1} BEGIN{ f(x) }",
	"function f(a){a[1]} BEGIN{ f(x); x = 1; y[1]; y = 2 }",
	// accepted programs with many globals, forward calls, arrays passed through
	"function f(a){a[1]; g(a)} function g(b){b[2]} BEGIN{ f(x); y = 1; z[1] }",
	"BEGIN { a = 1; b = 2; c[1] = 3; d = a b; e[a] = b; print d, e[a] } END { print NR, f, g[1] }",
	"function h(p, q) { return p + q[1] } function k(r) { return h(1, r) } BEGIN { k(arr); print h(2, arr) }",
	"function f(n) { return n <= 0 ? 0 : g(n - 1) } function g(n) { return f(n) + 1 } { s += f($1) } END { print s }",
	// Go functions next to AWK functions (an AWK function g shadows the Go function of that name)
	"#natives\nfunction f(x) { return na(x) + nb(x) } function g(y) { return f(y) nc(y) } BEGIN { print g(1), nb(2), na(3) }",
	"#natives\nfunction zz(x) { return nc(x) } function aa(y) { return zz(y) } function mm(z) { return aa(z) na(z) } BEGIN { print mm(1), nb(2) }",
}

func verifC19Check(pi int) {
	src := verifC19Programs[pi]
	base, n := verifParseOutcome(src, 1<<30) // no site permuted: insertion order everywhere
	site := verifIntRange(0, 40)
	if site >= n {
		return
	}
	for rep := 0; rep < verifNativeRepeat(); rep++ {
		got, _ := verifParseOutcome(src, site)
		verifReach("permuted")
		verifKnown("C19-uncalled-function-order", pi <= 1)
		verifAssert(got == base, "the outcome of ParseProgram (verdict, error message and position, compiled program) depends on map iteration order")
		if got != base {
			return
		}
	}
}

func VerifC19Errors()   { verifC19Check(verifIntRange(0, 7)) }
func VerifC19Accepted() { verifC19Check(verifIntRange(8, 8+verifBound(1, 3))) }
func VerifC19Natives()  { verifC19Check(verifIntRange(12, 13)) }
