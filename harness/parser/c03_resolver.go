package parser

import "strings"

// C03 (also run for C16) — parsing is total on programs that reach the resolver and the compiler: call chains that
// pass a variable through untyped parameters, parenthesised arguments, for-in loop variables of the wrong kind and
// every kind of semantic error.  ParseProgram returns a program or a *ParseError whose position exists in the source.

func verifPosInSource(src string, pe *ParseError) bool {
	lines := strings.Split(src, "\n")
	if pe.Position.Line < 1 || pe.Position.Line > len(lines) {
		return false
	}
	return pe.Position.Column >= 1 && pe.Position.Column-1 <= len(lines[pe.Position.Line-1])
}

func verifTotal(src string, what string) (accepted bool) {
	prog, err := ParseProgram([]byte(src), nil)
	if err == nil {
		verifAssert(prog != nil, what+": ParseProgram returned neither a program nor an error")
		return true
	}
	pe, ok := err.(*ParseError)
	verifAssert(ok, what+": ParseProgram returned an error that is not a *ParseError")
	if ok {
		verifReach("rejected")
		verifAssert(verifPosInSource(src, pe), what+": the error position does not exist in the source")
	}
	return false
}

// a variable handed down a chain of 1-3 functions; only the innermost function (or nothing) fixes its type
func VerifC03CallChains() {
	depth := verifIntRange(1, 3)
	bodies := []string{"", "p[1] = 1", "p = 1", "n = length(p)", "for (k in p) n++", "return p", "p[1]; p = 2", "delete p", "split(\"a\", p)", "getline p"}
	body := bodies[verifIntRange(0, len(bodies)-1)]
	argForms := []string{"V", "(V)", "((V))"}
	decls := []string{"", "x[1] = 1; ", "x = 1; ", "delete x; ", "x[1]; x = 1; "}
	decl := decls[verifIntRange(0, len(decls)-1)]
	inner := argForms[verifIntRange(0, 2)]
	outer := argForms[verifIntRange(0, 2)]
	arg := func(form, v string) string { return strings.Replace(form, "V", v, 1) }
	funcs := []string{"function c1(p) { " + body + " }\n"}
	for d := 2; d <= depth; d++ {
		funcs = append(funcs, "function c"+string(rune('0'+d))+"(p) { c"+string(rune('0'+d-1))+"("+arg(inner, "p")+") }\n")
	}
	begin := "BEGIN { " + decl + "c" + string(rune('0'+depth)) + "(" + arg(outer, "x") + ") }\n"
	// definitions before and after their use, callee before and after caller
	order := verifIntRange(0, 2)
	src := ""
	switch order {
	case 0:
		for _, f := range funcs {
			src += f
		}
		src += begin
	case 1:
		src = begin
		for i := len(funcs) - 1; i >= 0; i-- {
			src += funcs[i]
		}
	default:
		for i := len(funcs) - 1; i >= 0; i-- {
			src += funcs[i]
		}
		src += begin
	}
	accepted := verifTotal(src, "call chain")
	// the verdict does not depend on where the definitions stand
	other := begin
	for _, f := range funcs {
		other += f
	}
	_, err2 := ParseProgram([]byte(other), nil)
	verifAssert(accepted == (err2 == nil), "call chain: accepted or rejected depending on the order of the definitions")
	// plain (unparenthesised) arguments: accepted exactly when array use and scalar use do not meet
	if inner == "V" && outer == "V" {
		arrayUse := body == "p[1] = 1" || body == "for (k in p) n++" || body == "delete p" || body == "split(\"a\", p)"
		scalarUse := body == "p = 1" || body == "return p" || body == "getline p"
		both := body == "p[1]; p = 2"
		declArray := decl == "x[1] = 1; " || decl == "delete x; "
		declScalar := decl == "x = 1; "
		declBoth := decl == "x[1]; x = 1; "
		want := !(both || declBoth || (arrayUse && declScalar) || (scalarUse && declArray))
		verifAssert(accepted == want, "call chain: a well-typed program is rejected or an ill-typed one accepted")
	}
}

// every kind of semantic error: reported as a *ParseError at a position inside the source
func VerifC03SemanticErrors() {
	progs := []string{
		"BEGIN { k[1] = 1; for (k in a) print k }",
		"BEGIN { a = 1\n for (k in a) print k }",
		"BEGIN { for (k in a) k[1] = 2 }",
		"function f(a) { a[1] }\nBEGIN { x = 1; f(x) }",
		"function f(a) { a = 1 }\n\nBEGIN { x[1]; f(x) }",
		"function f(a) { a[1] }\nBEGIN { f(1 + 2) }",
		"function f(a) { a[1] }\nBEGIN { f((x)) }",
		"function f(a) { }\nBEGIN { f(1, 2) }",
		"BEGIN { g(1) }",
		"function f(f) { }",
		"function f(a) { a() }",
		"function f() { }\nfunction f() { }",
		"function f() { }\nBEGIN { f = 1 }",
		"BEGIN { x = 1; x[1] = 2 }",
		"BEGIN { x[1] = 2\n\n   x = 1 }",
		"BEGIN { 1 = 2 }",
		"BEGIN { x++ ++ }",
		"BEGIN { sub(/a/, \"b\", 1) }",
		"BEGIN { (a, b) }",
		"BEGIN { x = (1,\n 2) }",
		"BEGIN { getline (1 }",
		"BEGIN { NF[1] = 1 }",
		"function f(NR) { }", // accepted by goawk (a parameter may shadow a special variable)
		"function f(a, a) { }",
		"BEGIN { delete x; x = 1 }",
		"BEGIN { split(\"a\", x); print x }",
		"BEGIN { print length(x); x[1]; x = 2 }",
		"BEGIN { x in y; y = 1 }",
		"BEGIN { return }",
		"BEGIN { next }",
		"function f() { return 1 ( }",
		"END { nextfile }",
		"BEGIN { break }",
		"BEGIN { continue }",
		"BEGIN { printf }",
		"BEGIN { f( }",
		"BEGIN { $ }",
		"BEGIN { a[ }",
		"BEGIN { \"abc }",
		"BEGIN { /abc }",
		"BEGIN { x = 1 +\n\n }",
		"BEGIN { if (x) }",
		"BEGIN { while }",
		"BEGIN { for (;;) }",
		"BEGIN { do x; while }",
		"BEGIN { @ }",
		"function (a) { }",
		"function f(a { }",
		"BEGIN { x = = 1 }",
		"BEGIN { print > }",
		"BEGIN { x = a ? b }",
		"BEGIN {",
		"}",
		"BEGIN { /[/ }",
		"BEGIN { x ~ /(/ }",
		"BEGIN { in }",
		"BEGIN { getline < }",
		"BEGIN { \"c\" | getline + }",
	}
	i := verifIntRange(0, len(progs)-1)
	tail := []string{"", "\n", "\n\n", " ", "\n# c"}[verifIntRange(0, 4)]
	accepted := verifTotal(progs[i]+tail, "erroneous program")
	verifAssert(!accepted || i == 22, "a program with a semantic or syntax error was accepted")
}

// an array type that has to travel through k parameter positions of a recursive function, one position per
// resolver pass, against the order in which arguments are visited
func VerifC16Rotation() {
	k := verifIntRange(2, 6)
	names := []string{"a", "b", "c", "d", "e", "f"}[:k]
	params := ""
	for _, n := range names {
		params += n + ", "
	}
	// r(p1..pk, n, t) indexes only pk and calls r(t, p1..p(k-1), n+1)
	call := "t"
	for _, n := range names[:k-1] {
		call += ", " + n
	}
	src := "function r(" + params + "n, t) { if (n > 0) return 0; " + names[k-1] + "[1] = 1; return r(" + call + ", n + 1) }\n"
	args := ""
	for i := range names {
		args += "g" + string(rune('0'+i)) + ", "
	}
	illTyped := verifIntRange(0, 2)
	begin := "BEGIN { x = r(" + args + "0) }\n"
	switch illTyped {
	case 1:
		begin = "BEGIN { g0 = 1; x = r(" + args + "0) }\n" // the first argument reaches the indexed position after k-1 rotations
	case 2:
		begin = "BEGIN { x = r(" + args + "0); g" + string(rune('0'+k-1)) + " = 2 }\n"
	}
	if verifIntRange(0, 1) == 1 {
		src = begin + src
	} else {
		src += begin
	}
	accepted := verifTotal(src, "rotating parameters")
	verifAssert(accepted == (illTyped == 0), "rotating parameters: a well-typed program is rejected or an ill-typed one accepted (the array type did not reach every parameter position)")
}

// the call f(V) placed in every kind of expression position: its argument takes part in typing wherever it stands
func VerifC16Contexts() {
	ctxs := []string{
		"y = CALL", "y = (CALL)", "y = CALL + 1", "y = -CALL", "y = !CALL", "y = 1 CALL", "y = CALL ? 1 : 2", "y = 1 ? CALL : 2", "y = 1 ? 2 : CALL",
		"if (CALL in t) y = 1", "if ((1, CALL) in t) y = 1", "y = t[CALL]", "t[CALL] = 1", "y = $CALL", "$CALL = 1", "y = length(CALL)", "y = substr(\"s\", CALL)",
		"y = (CALL ~ /r/)", "y = (\"s\" ~ CALL)", "y = (CALL < 1)", "y = CALL && 1", "y = 1 || CALL", "print CALL", "print 1 > CALL", "printf \"%s\", CALL",
		"if (CALL) y = 1", "while (CALL) break", "for (;CALL;) break", "for (i = CALL; i < 1; i++) ;", "do y = 1; while (CALL)", "delete t[CALL]", "y = g(CALL)",
		"getline < CALL", "CALL | getline", "y += CALL", "t[1] += CALL", "$1 += CALL", "y = i++ + CALL", "exit CALL", "y = split(\"a\", t, CALL)", "y = sub(CALL, \"x\")",
		"y = @CALL",
	}
	ci := verifIntRange(0, len(ctxs)-1)
	stmt := strings.Replace(ctxs[ci], "CALL", "f(x)", 1)
	variant := verifIntRange(0, 3)
	defs := "function f(p) { p[1] = 1; return 1 }\nfunction g(q) { return q }\n"
	var src string
	switch variant {
	case 0: // well typed: x is an array everywhere
		src = defs + "BEGIN { x[2] = 2; " + stmt + " }\n"
	case 1: // ill typed: x is assigned as a scalar elsewhere
		src = defs + "BEGIN { x = 2; " + stmt + " }\n"
	case 2: // ill typed, use after the call, definitions last
		src = "BEGIN { " + stmt + "; x = 2 }\n" + defs
	default: // the call is the only thing that types x: accepted, x becomes an array
		src = "BEGIN { " + stmt + " }\n" + defs
	}
	accepted := verifTotal(src, "call in expression position")
	verifAssert(accepted == (variant == 0 || variant == 3), "a call's argument did not take part in scalar/array typing in some expression position (well-typed rejected or ill-typed accepted)")
}
