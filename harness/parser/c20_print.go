package parser

import (
	"github.com/benhoyt/goawk/internal/ast"
	"github.com/benhoyt/goawk/lexer"
)

// C20 — the printed form of a program parses back to the same tree, and printing is idempotent.

// string literals: for every byte string, lexing the printed literal gives one STRING token with that value
func VerifC20Strings() {
	n := verifIntRange(0, verifBound(2, 3))
	s := verifString(n)
	text := (&ast.StrExpr{Value: s}).String()
	l := lexer.NewLexer([]byte(text))
	_, tok, val := l.Scan()
	_, tok2, _ := l.Scan()
	verifReach("lexed")
	verifKnown("C20-unicode-escape", verifHasNonASCII(s))
	verifAssert(tok == lexer.STRING && val == s && tok2 == lexer.EOF, "a printed string literal does not lex back to one string with the same bytes")
}

// a two-byte character followed by one more byte: what follows an escape sequence must not be absorbed by it
func VerifC20StringsAfterEscape() {
	lead := []byte{0xC2, 0xDF, 0x01, 0x7F}[verifIntRange(0, 3)]
	rest := verifString(2)
	s := string([]byte{lead}) + rest
	text := (&ast.StrExpr{Value: s}).String()
	l := lexer.NewLexer([]byte(text))
	_, tok, val := l.Scan()
	_, tok2, _ := l.Scan()
	verifKnown("C20-unicode-escape", verifHasNonASCII(s))
	verifAssert(tok == lexer.STRING && val == s && tok2 == lexer.EOF, "a printed string literal does not lex back to one string with the same bytes")
}

func verifHasNonASCII(s string) bool {
	for i := 0; i < len(s); i++ {
		if s[i] >= 0x80 {
			return true
		}
	}
	return false
}

// regex literals, quantified over sources so that only producible values are demanded
func VerifC20Regex() {
	n := verifIntRange(0, verifBound(3, 4))
	verifRegexRoundTrip(verifString(n))
}

// longer regex bodies over the bytes that matter for escaping: backslash, slash, =, a letter
func VerifC20RegexEscapes() {
	n := verifIntRange(0, verifBound(6, 7))
	body := verifString(n)
	for i := 0; i < len(body); i++ {
		verifAssume(body[i] == '\\' || body[i] == '/' || body[i] == '=' || body[i] == 'a')
	}
	verifRegexRoundTrip(body)
}

func verifRegexRoundTrip(body string) {
	src := append(append([]byte("/"), body...), '/')
	l := lexer.NewLexer(src)
	_, first, _ := l.Scan()
	if first != lexer.DIV && first != lexer.DIV_ASSIGN {
		return
	}
	_, tok, r := l.ScanRegex()
	if tok != lexer.REGEX {
		return
	}
	verifReach("regex-lexed")
	text := (&ast.RegExpr{Regex: r}).String()
	l2 := lexer.NewLexer([]byte(text))
	_, f2, _ := l2.Scan()
	verifAssert(f2 == lexer.DIV || f2 == lexer.DIV_ASSIGN, "a printed regex literal does not start with a slash")
	if f2 != lexer.DIV && f2 != lexer.DIV_ASSIGN {
		return
	}
	_, tok2, r2 := l2.ScanRegex()
	_, tok3, _ := l2.Scan()
	verifAssert(tok2 == lexer.REGEX && r2 == r && tok3 == lexer.EOF, "a printed regex literal does not lex back to the same regex")
}

// whole-program round trip on a source text: parse, print, parse again, compare trees, print again
func verifRoundTrip(src string, what string) {
	p1, e1 := ParseProgram([]byte(src), nil)
	if e1 != nil {
		return // only accepted programs are demanded
	}
	verifReach("accepted")
	s1 := p1.String()
	p2, e2 := ParseProgram([]byte(s1), nil)
	verifAssert(e2 == nil, what+": the printed form of an accepted program is rejected by the parser")
	if e2 != nil {
		return
	}
	verifAssert(verifProgSexp(&p1.ResolvedProgram.Program) == verifProgSexp(&p2.ResolvedProgram.Program), what+": the printed form parses to a different syntax tree")
	verifAssert(p2.String() == s1, what+": printing the re-parsed tree gives different text")
}

func verifStmtsSexp(ss ast.Stmts) string {
	out := "{"
	for _, s := range ss {
		out += verifStmtSexp(s) + ";"
	}
	return out + "}"
}

func verifExprsSexp(es []ast.Expr) string {
	out := ""
	for _, e := range es {
		out += verifSexp2(e) + ","
	}
	return out
}

// like verifSexp but keeps literals and call forms (grouping still ignored)
func verifSexp2(e ast.Expr) string {
	switch e := e.(type) {
	case nil:
		return "nil"
	case *ast.GroupingExpr:
		return verifSexp2(e.Expr)
	case *ast.StrExpr:
		return "str:" + e.Value
	case *ast.RegExpr:
		return "re:" + e.Regex
	case *ast.NumExpr:
		return "num"
	case *ast.CallExpr:
		return "(call " + e.Func.String() + " " + verifExprsSexp(e.Args) + ")"
	case *ast.UserCallExpr:
		return "(ucall " + e.Name + " " + verifExprsSexp(e.Args) + ")"
	case *ast.IndexExpr:
		return "(index " + e.Array + " " + verifExprsSexp(e.Index) + ")"
	case *ast.InExpr:
		return "(in " + verifExprsSexp(e.Index) + " " + e.Array + ")"
	case *ast.MultiExpr:
		return "(multi " + verifExprsSexp(e.Exprs) + ")"
	case *ast.GetlineExpr:
		return "(getline " + verifSexp2(e.Command) + " " + verifSexp2(e.Target) + " " + verifSexp2(e.File) + ")"
	case *ast.UnaryExpr:
		return "(u" + e.Op.String() + " " + verifSexp2(e.Value) + ")"
	case *ast.BinaryExpr:
		op := e.Op.String()
		if e.Op == lexer.CONCAT {
			op = "concat"
		}
		return "(" + op + " " + verifSexp2(e.Left) + " " + verifSexp2(e.Right) + ")"
	case *ast.CondExpr:
		return "(?: " + verifSexp2(e.Cond) + " " + verifSexp2(e.True) + " " + verifSexp2(e.False) + ")"
	case *ast.AssignExpr:
		return "(= " + verifSexp2(e.Left) + " " + verifSexp2(e.Right) + ")"
	case *ast.AugAssignExpr:
		return "(" + e.Op.String() + "= " + verifSexp2(e.Left) + " " + verifSexp2(e.Right) + ")"
	case *ast.FieldExpr:
		return "($ " + verifSexp2(e.Index) + ")"
	case *ast.NamedFieldExpr:
		return "(@ " + verifSexp2(e.Field) + ")"
	case *ast.IncrExpr:
		if e.Pre {
			return "(pre" + e.Op.String() + " " + verifSexp2(e.Expr) + ")"
		}
		return "(post" + e.Op.String() + " " + verifSexp2(e.Expr) + ")"
	case *ast.VarExpr:
		return e.Name
	}
	return "?"
}

func verifStmtSexp(s ast.Stmt) string {
	switch s := s.(type) {
	case *ast.PrintStmt:
		return "print[" + verifExprsSexp(s.Args) + "]" + s.Redirect.String() + verifSexp2(s.Dest)
	case *ast.PrintfStmt:
		return "printf[" + verifExprsSexp(s.Args) + "]" + s.Redirect.String() + verifSexp2(s.Dest)
	case *ast.ExprStmt:
		return verifSexp2(s.Expr)
	case *ast.IfStmt:
		return "if " + verifSexp2(s.Cond) + verifStmtsSexp(s.Body) + "else" + verifStmtsSexp(s.Else)
	case *ast.ForStmt:
		pre, post := "nil", "nil"
		if s.Pre != nil {
			pre = verifStmtSexp(s.Pre)
		}
		if s.Post != nil {
			post = verifStmtSexp(s.Post)
		}
		return "for " + pre + ";" + verifSexp2(s.Cond) + ";" + post + verifStmtsSexp(s.Body)
	case *ast.ForInStmt:
		return "forin " + s.Var + " " + s.Array + verifStmtsSexp(s.Body)
	case *ast.WhileStmt:
		return "while " + verifSexp2(s.Cond) + verifStmtsSexp(s.Body)
	case *ast.DoWhileStmt:
		return "do" + verifStmtsSexp(s.Body) + "while " + verifSexp2(s.Cond)
	case *ast.BreakStmt:
		return "break"
	case *ast.ContinueStmt:
		return "continue"
	case *ast.NextStmt:
		return "next"
	case *ast.NextfileStmt:
		return "nextfile"
	case *ast.ExitStmt:
		return "exit " + verifSexp2(s.Status)
	case *ast.DeleteStmt:
		return "delete " + s.Array + " " + verifExprsSexp(s.Index)
	case *ast.ReturnStmt:
		return "return " + verifSexp2(s.Value)
	case *ast.BlockStmt:
		return "block" + verifStmtsSexp(s.Body)
	}
	return "?stmt"
}

func verifProgSexp(p *ast.Program) string {
	out := ""
	for _, b := range p.Begin {
		out += "BEGIN" + verifStmtsSexp(b)
	}
	for _, a := range p.Actions {
		out += "ACTION[" + verifExprsSexp(a.Pattern) + "]"
		if a.Stmts == nil {
			out += "nobody"
		} else {
			out += verifStmtsSexp(a.Stmts)
		}
	}
	for _, e := range p.End {
		out += "END" + verifStmtsSexp(e)
	}
	for _, f := range p.Functions {
		out += "FUNC " + f.Name + "("
		for _, prm := range f.Params {
			out += prm + ","
		}
		out += ")" + verifStmtsSexp(f.Body)
	}
	return out
}

// expressions: the C04 operator pairs with unary chains, both spellings, as sources
func VerifC20Exprs() {
	ctx := verifIntRange(0, 1)
	o1 := verifBinOps[verifIntRange(0, len(verifBinOps)-1)]
	o2 := verifBinOps[verifIntRange(0, len(verifBinOps)-1)]
	a, b, c, d := verifLeaf("a"), verifLeaf("b"), verifLeaf("c"), verifLeaf("d")
	inner := verifNode(o2, b, c, d)
	if inner == nil {
		return
	}
	var t *verifTree
	if verifIntRange(0, 1) == 0 {
		t = verifNode(o1, inner, a, d)
	} else {
		t = verifNode(o1, a, inner, d)
	}
	if t == nil {
		return
	}
	text := t.print(verifIntRange(0, 1) == 1)
	src := "BEGIN { x = " + text + " }"
	if ctx == 1 {
		src = "BEGIN { print " + text + " }"
	}
	verifKnown("C20-sign-adjacency", verifSignChain(t))
	verifRoundTrip(src, "expression")
}

// a unary sign applied directly to an expression starting with the same sign (printed without a space)
func verifSignChain(t *verifTree) bool {
	if t == nil || t.op == "" {
		return false
	}
	if (t.op == "u-" || t.op == "u+") && t.l.op == t.op {
		return true
	}
	return verifSignChain(t.l) || verifSignChain(t.m) || verifSignChain(t.r)
}

// unary chains and token-adjacency hazards; the innermost operand may itself start or end with ++ / --
func VerifC20Adjacency() {
	un := []string{"", "-", "+", "!"}
	bin := []string{"+", "-", "*", "/", " ", "<", "~", "^", "%"}
	operands := []string{"x", "--x", "++x", "x--", "x++", "$1", "--$1", "arr[1]", "++arr[1]", "2", "-2"}
	u1, u2, u3 := un[verifIntRange(0, 3)], un[verifIntRange(0, 3)], un[verifIntRange(0, 3)]
	b := bin[verifIntRange(0, len(bin)-1)]
	operand := operands[verifIntRange(0, len(operands)-1)]
	right := u1 + " " + u2 + " " + u3 + " " + operand
	if u1 == "" && u2 == "" && u3 == "" && (b == " " && (operand[0] == '-' || operand[0] == '+')) {
		right = "(" + right + ")"
	}
	if b == " " && (u1 == "-" || u1 == "+" || (u1 == "" && (u2 == "-" || u2 == "+"))) {
		right = "(" + right + ")"
	}
	src := "BEGIN { y = a " + b + " " + right + " }"
	verifKnown("C20-sign-adjacency", (u1 == u2 && (u1 == "-" || u1 == "+")) || (u2 == u3 && (u2 == "-" || u2 == "+")) || (u1 == u3 && u2 == "" && (u1 == "-" || u1 == "+")))
	verifRoundTrip(src, "unary chain")
}

// statements, getline and redirection forms, calls, multi-index in, empty bodies, literals
func VerifC20Programs() {
	progs := []string{
		`BEGIN { print a, b > "f"; print a >> "f"; print a | "cmd"; printf "%s", a > "/dev/stderr" }`,
		`BEGIN { getline; getline x; getline < "f"; getline x < "f"; "cmd" | getline; "cmd" | getline x; while (("cmd" | getline line) > 0) n++ }`,
		`BEGIN { if (a) b; else c; if (a) { } else { }; for (;;) break; for (i = 0; i < 3; i++) continue; for (k in arr) delete arr[k]; delete arr }`,
		`BEGIN { while (a) { b }; do { b } while (a); exit; exit 1 } END { next_ = 1 }`,
		`function f(a, b) { return a + b } function g() { return } BEGIN { x = f(1, 2); g(); y = length(); z = length(x); w = substr(x, 1, 2) }`,
		`$1 == "x", $2 == "y" { next } /re/ { nextfile } !/re/ { print } END { }`,
		`BEGIN { if ((1, 2) in arr) x; if (i in arr) y; arr[1, 2] = 3; x = arr[1][2] }`,
		`BEGIN { x = a / b / c; y = a /b/ c; z = a ~ /re\/x/; w = $1 / 2 }`,
		`BEGIN { x = 1e3; y = 0.5; z = 100; s = "tab\there"; t = "q\"q"; u = "back\\slash" }`,
		`BEGIN { x = @"name"; y = @name; $3 = "v"; $(i + 1) = 2; NF = 3 }`,
		`BEGIN { x = a ? b : c; x += 1; x -= 1; x *= 2; x /= 2; x %= 2; x ^= 2; x++; ++x; x--; --x }`,
		`BEGIN { print(a)(b); print (a, b) > "f"; print (a)(b) > "f" }`,
		`BEGIN { x = sub(/a/, "b"); y = gsub(/a/, "b", $1); split(s, arr); split(s, arr, ","); z = sprintf("%d", 1); close("f"); system("c"); fflush() }`,
		`{ } BEGIN { } END { } /x/`,
		`BEGIN { x = -1; y = - 1; z = !x; w = !(x ~ y); v = !x ~ y; u = 2 ^ -3; t = -2 ^ 2; s = a - -b; r = a + +b }`,
		`function f(x) { return x } BEGIN { getline (a[k]); getline (f(x)); "cmd" | getline (a[k]); getline (x); getline ($1); getline (x) < "f"; getline x (y) }`,
		`BEGIN { if (a) x; else { if (b) y; z }; if (a) x; else { if (b) y }; if (a) x; else if (b) y; else z; if (a) x; else { if (b) y; else z; w } }`,
		`BEGIN { if (a) { if (b) x } else y; if (a) if (b) x; else y; if (a) { if (b) x; else y } }`,
		`BEGIN { x = (f(1)) (a[1]) ($1) (length(z)); y = -(a[1]); z = (a[1])++; w = !(f(2)) } function f(p) { return p }`,
		`BEGIN { while (a) if (b) break; else continue; for (;;) { if (a) break }; do if (a) x; else y; while (b) }`,
	}
	// arr[1][2] is not AWK; keep the list to accepted programs only (rejected ones are skipped by verifRoundTrip)
	i := verifIntRange(0, len(progs)-1)
	verifRoundTrip(progs[i], "program")
}

// print / printf with a parenthesised argument list whose arguments contain > or | (a comparison or a command
// getline there is only possible inside the parentheses): the printed form must keep them grouped
func VerifC20PrintLists() {
	args := []string{`a > b`, `a`, `"cmd" | getline`, `c = d > e`, `a ? b > c : d`, `!(a > b)`, `(a > b)`, `a in arr`, `-a > b`, `a < b`, `a >= b`, `"cmd" | getline x`, `a b > c`, `$1 > 2`, `x y | getline`, `f(a > b)`, `arr[a > b]`, `a > b ? c : d`}
	n := verifIntRange(1, 3)
	list := ""
	for i := 0; i < n; i++ {
		if i > 0 {
			list += ", "
		}
		list += args[verifIntRange(0, len(args)-1)]
	}
	kw := []string{"print", "printf"}[verifIntRange(0, 1)]
	dest := []string{"", ` > "f"`, ` >> "f"`, ` | "out"`}[verifIntRange(0, 3)]
	src := "function f(p) { return p } BEGIN { " + kw + " (" + list + ")" + dest + " }"
	verifRoundTrip(src, "print with a parenthesised list")
}

// numeric literals: the printed literal is again a numeric literal (same tree) and printing is idempotent
func VerifC20Numbers() {
	lits := []string{"1e999", "9223372036854775808", "9223372036854775807", "123456789.5", "1e19", "0.1234567", "1e-7", "123456.7", "999999.5", "1e300", "1.5e300",
		"0.000001", "1234567", "1234567.4", "4611686018427387904.5", "1e15", "1e16", "1e21", "0.5", "100", "0", "1.0", "017", "1e+5", ".5", "5.", "1e6", "999999.4999", "2147483648", "18446744073709551616"}
	lit := lits[verifIntRange(0, len(lits)-1)]
	ctx := []string{"BEGIN { x = LIT }", "BEGIN { x = -LIT }", "BEGIN { x = a - LIT }", "BEGIN { print LIT, -LIT; x = a LIT }", "$1 == LIT { x = LIT + LIT }", "BEGIN { x = a[LIT]; $LIT = 1 }"}[verifIntRange(0, 5)]
	src := ""
	for i := 0; i < len(ctx); i++ {
		if i+3 <= len(ctx) && ctx[i:i+3] == "LIT" {
			src += lit
			i += 2
		} else {
			src += string(ctx[i])
		}
	}
	verifRoundTrip(src, "numeric literal")
}
