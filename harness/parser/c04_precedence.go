package parser

import (
	"github.com/benhoyt/goawk/internal/ast"
	"github.com/benhoyt/goawk/lexer"
)

// C04 — grouping follows the POSIX precedence/associativity table: an expression tree written
// with only the parentheses the table requires parses to the same tree as the fully
// parenthesised spelling.  The operator at each node is a (case-split) symbolic choice; the
// table below is transcribed from the property text, independently of the parser.

type verifTree struct {
	op      string // "" leaf; "?:" ternary; "u-" "u+" "u!" unary; otherwise binary operator text (" " = concatenation)
	leaf    string
	l, m, r *verifTree
}

// precedence level (higher binds tighter) and associativity: 'L', 'R' or 'N' (non-associative)
func verifLevel(op string) (int, byte) {
	switch op {
	case "=", "+=", "-=", "*=", "/=", "%=", "^=":
		return 1, 'R'
	case "?:":
		return 2, 'R'
	case "||":
		return 3, 'L'
	case "&&":
		return 4, 'L'
	case "in":
		return 5, 'L'
	case "~", "!~":
		return 6, 'N'
	case "<", "<=", "!=", "==", ">", ">=":
		return 7, 'N'
	case " ":
		return 8, 'L'
	case "+", "-":
		return 9, 'L'
	case "*", "/", "%":
		return 10, 'L'
	case "u-", "u+", "u!":
		return 11, 'R'
	case "^":
		return 12, 'R'
	}
	return 15, 'N' // leaf / grouping
}

func (t *verifTree) level() int {
	if t.op == "" {
		return 15
	}
	l, _ := verifLevel(t.op)
	return l
}

// first significant character of the minimal spelling (for the lexical adjacency rules)
func (t *verifTree) firstChar(full bool) byte {
	s := t.print(full)
	return s[0]
}

func paren(s string) string { return "(" + s + ")" }

// print: full = parenthesise every sub-expression; otherwise only what the table requires, plus the
// lexical rules of the grammar that are not precedence: a concatenation's right operand may not begin
// with a sign, and two sign characters may not touch.
func (t *verifTree) print(full bool) string {
	if t.op == "" {
		return t.leaf
	}
	lvl, assoc := verifLevel(t.op)
	child := func(c *verifTree, needParen bool) string {
		s := c.print(full)
		if c.op != "" && (full || needParen) {
			return paren(s)
		}
		return s
	}
	switch {
	case t.op == "?:":
		// condition: must bind tighter than ?: ; middle: any expression except a bare ?: or assignment; false part: right-associative
		c := child(t.l, t.l.level() <= lvl)
		m := child(t.m, t.m.level() <= lvl)
		f := child(t.r, t.r.level() < lvl)
		return c + " ? " + m + " : " + f
	case t.op[0] == 'u':
		// the operand of a unary operator is parsed at the ^ level
		needP := t.l.level() < lvl
		s := child(t.l, needP)
		sep := ""
		if s[0] == '+' || s[0] == '-' {
			sep = " " // "- -x" must not become "--x"
		}
		return t.op[1:] + sep + s
	}
	needL := t.l.level() < lvl || (t.l.level() == lvl && assoc != 'L')
	needR := t.r.level() < lvl || (t.r.level() == lvl && assoc != 'R')
	if lvl == 1 {
		needL = false // the assignment target is a name (harness only builds such trees)
	}
	if t.op == "in" {
		needR = false // array name
	}
	ls, rs := child(t.l, needL), child(t.r, needR)
	if t.op == " " {
		if rs[0] == '+' || rs[0] == '-' {
			rs = paren(rs) // a b -c would be read as subtraction
		}
		return ls + " " + rs
	}
	return ls + " " + t.op + " " + rs
}

// canonical S-expression of a parsed expression, ignoring grouping
func verifSexp(e ast.Expr) string {
	switch e := e.(type) {
	case *ast.GroupingExpr:
		return verifSexp(e.Expr)
	case *ast.VarExpr:
		return e.Name
	case *ast.NumExpr:
		return "num"
	case *ast.UnaryExpr:
		return "(u" + e.Op.String() + " " + verifSexp(e.Value) + ")"
	case *ast.BinaryExpr:
		op := e.Op.String()
		if e.Op == lexer.CONCAT {
			op = "concat"
		}
		return "(" + op + " " + verifSexp(e.Left) + " " + verifSexp(e.Right) + ")"
	case *ast.InExpr:
		return "(in " + verifSexp(e.Index[0]) + " " + e.Array + ")"
	case *ast.CondExpr:
		return "(?: " + verifSexp(e.Cond) + " " + verifSexp(e.True) + " " + verifSexp(e.False) + ")"
	case *ast.AssignExpr:
		return "(= " + verifSexp(e.Left) + " " + verifSexp(e.Right) + ")"
	case *ast.AugAssignExpr:
		return "(" + e.Op.String() + "= " + verifSexp(e.Left) + " " + verifSexp(e.Right) + ")"
	case *ast.FieldExpr:
		return "($ " + verifSexp(e.Index) + ")"
	case *ast.IncrExpr:
		if e.Pre {
			return "(pre" + e.Op.String() + " " + verifSexp(e.Expr) + ")"
		}
		return "(post" + e.Op.String() + " " + verifSexp(e.Expr) + ")"
	case *ast.IndexExpr:
		return "(index " + e.Array + ")"
	case *ast.GetlineExpr:
		s := "(getline"
		if e.Command != nil {
			s += " cmd:" + verifSexp(e.Command)
		}
		if e.Target != nil {
			s += " target:" + verifSexp(e.Target)
		}
		if e.File != nil {
			s += " file:" + verifSexp(e.File)
		}
		return s + ")"
	case *ast.StrExpr:
		return "str"
	case *ast.RegExpr:
		return "regex"
	}
	return "?"
}

// parse the expression in one of four contexts and return its canonical form ("ERR" on a parse error)
func verifParseExpr(text string, ctx int) string {
	var src string
	switch ctx {
	case 0:
		src = "BEGIN { " + text + " }"
	case 1:
		src = "BEGIN { print " + text + " }"
	case 2:
		src = text + " { }"
	case 3:
		src = "BEGIN { if (" + text + ") x }"
	default:
		src = "BEGIN { print " + text + " > \"f\" }"
	}
	prog, err := ParseProgram([]byte(src), nil)
	if err != nil {
		return "ERR"
	}
	switch ctx {
	case 0:
		return verifSexp(prog.Begin[0][0].(*ast.ExprStmt).Expr)
	case 1:
		ps := prog.Begin[0][0].(*ast.PrintStmt)
		if len(ps.Args) != 1 || ps.Redirect != lexer.ILLEGAL {
			return "PRINT-SHAPE"
		}
		return verifSexp(ps.Args[0])
	case 4:
		// the unparenthesised > after the argument is a redirection to "f", whatever the argument's operators
		ps := prog.Begin[0][0].(*ast.PrintStmt)
		if len(ps.Args) != 1 || ps.Redirect != lexer.GREATER {
			return "PRINT-SHAPE"
		}
		if d, ok := ps.Dest.(*ast.StrExpr); !ok || d.Value != "f" {
			return "PRINT-DEST"
		}
		return verifSexp(ps.Args[0])
	case 2:
		return verifSexp(prog.Actions[0].Pattern[0])
	}
	return verifSexp(prog.Begin[0][0].(*ast.IfStmt).Cond)
}

var verifBinOps = []string{"=", "+=", "?:", "||", "&&", "in", "~", "<", "==", " ", "+", "-", "*", "/", "%", "^", "u-", "u!", "u+"}
var verifBinOpsSmall = []string{"=", "?:", "||", "in", "<", " ", "-", "*", "^", "u-"}

var verifNumericLeaves bool

// leaves are names, or (second leaf set) numeric literals: a signed literal must group like a signed name
func verifLeaf(n string) *verifTree {
	if verifNumericLeaves && n != "arr" {
		return &verifTree{leaf: string([]byte{byte('2' + n[0] - 'a')})}
	}
	return &verifTree{leaf: n}
}

// build a node over the operator with the given operands (nil if the shape is not expressible:
// assignment needs a name on the left, "in" an array name on the right)
func verifNode(op string, a, b, c *verifTree) *verifTree {
	switch {
	case op == "?:":
		return &verifTree{op: op, l: a, m: b, r: c}
	case op[0] == 'u':
		return &verifTree{op: op, l: a}
	case op == "=" || op == "+=":
		if a.op != "" {
			return nil
		}
		return &verifTree{op: op, l: &verifTree{leaf: "v"}, r: b}
	case op == "in":
		return &verifTree{op: op, l: a, r: verifLeaf("arr")}
	}
	return &verifTree{op: op, l: a, r: b}
}

func verifCheckTree(t *verifTree, ctx int) {
	if t == nil {
		return
	}
	min, full := t.print(false), t.print(true)
	if ctx == 1 {
		// inside print an unparenthesised > is a redirection and "in"/comparison keep their level; the whole
		// argument is not wrapped, so the table applies unchanged for the operators used here (no > in the alphabet)
	}
	a, b := verifParseExpr(min, ctx), verifParseExpr(full, ctx)
	verifReach("parsed-both")
	verifAssert(a == b, "an expression written with only the parentheses the POSIX table requires groups differently from its fully parenthesised spelling")
	if ctx == 4 {
		verifAssert(b != "PRINT-SHAPE" && b != "PRINT-DEST", "inside print an unparenthesised > after a fully parenthesised argument was not taken as a redirection")
	}
}

// every pair of operators in every nesting position, four contexts
func VerifC04Pairs() {
	verifNumericLeaves = verifIntRange(0, 1) == 1
	ctx := verifIntRange(0, 4)
	o1 := verifBinOps[verifIntRange(0, len(verifBinOps)-1)]
	o2 := verifBinOps[verifIntRange(0, len(verifBinOps)-1)]
	a, b, c, d := verifLeaf("a"), verifLeaf("b"), verifLeaf("c"), verifLeaf("d")
	// inner node in each operand position of the outer node
	inner := verifNode(o2, b, c, d)
	if inner == nil {
		return
	}
	pos := verifIntRange(0, 2)
	var t *verifTree
	switch pos {
	case 0:
		t = verifNode(o1, inner, a, d)
	case 1:
		t = verifNode(o1, a, inner, d)
	default:
		if o1 != "?:" {
			return
		}
		t = verifNode(o1, a, d, inner)
	}
	verifCheckTree(t, ctx)
}

// every triple of operators (quick: 10-operator sub-alphabet) in the five binary tree shapes
func VerifC04Triples() {
	ops := verifBinOpsSmall
	if verifBound(0, 1) == 1 {
		ops = verifBinOps
	}
	verifNumericLeaves = verifBound(0, 1) == 1 && verifIntRange(0, 1) == 1
	ctx := verifIntRange(0, 4)
	o1 := ops[verifIntRange(0, len(ops)-1)]
	o2 := ops[verifIntRange(0, len(ops)-1)]
	o3 := ops[verifIntRange(0, len(ops)-1)]
	a, b, c, d, e := verifLeaf("a"), verifLeaf("b"), verifLeaf("c"), verifLeaf("d"), verifLeaf("e")
	n := func(op string, x, y *verifTree) *verifTree {
		if x == nil || y == nil {
			return nil
		}
		return verifNode(op, x, y, e)
	}
	var t *verifTree
	switch verifIntRange(0, 4) {
	case 0:
		t = n(o1, n(o2, n(o3, a, b), c), d)
	case 1:
		t = n(o1, n(o2, a, n(o3, b, c)), d)
	case 2:
		t = n(o1, n(o2, a, b), n(o3, c, d))
	case 3:
		t = n(o1, a, n(o2, n(o3, b, c), d))
	default:
		t = n(o1, a, n(o2, b, n(o3, c, d)))
	}
	verifCheckTree(t, ctx)
}

// the special rules of the property: > inside print is a redirection; cmd | getline binds looser than concatenation;
// $ binds to a primary (with the post-increment exception); unary minus against ^
func VerifC04Special() {
	cases := [][2]string{
		{`BEGIN { print a > b }`, "print[a]>b"},
		{`BEGIN { print (a > b) }`, "print[(> a b)]"},
		{`BEGIN { print a, b > c }`, "print[a,b]>c"},
		{`BEGIN { print a b > c d }`, "print[(concat a b)]>(concat c d)"},
		{`BEGIN { print a > b ? c : d }`, "print[a]>(?: b c d)"},
		{`BEGIN { print a >> b }`, "print[a]>>b"},
		{`BEGIN { print a | b }`, "print[a]|b"},
		{`BEGIN { print a < b }`, "print[(< a b)]"},
		{`BEGIN { print a in arr }`, "print[(in a arr)]"},
		{`BEGIN { x = a b | getline }`, "(= x (getline cmd:(concat a b)))"},
		{`BEGIN { x = a b | getline y }`, "(= x (getline cmd:(concat a b) target:y))"},
		{`BEGIN { x = -a ^ b }`, "(= x (u- (^ a b)))"},
		{`BEGIN { x = a ^ b ^ c }`, "(= x (^ a (^ b c)))"},
		{`BEGIN { x = !a + b }`, "(= x (+ (u! a) b))"},
		{`BEGIN { x = $a b }`, "(= x (concat ($ a) b))"},
		{`BEGIN { x = $a++ }`, "(= x (post++ ($ a)))"},
		{`BEGIN { x = $$a++ }`, "(= x ($ (post++ ($ a))))"},
		{`BEGIN { x = $a ^ b }`, "(= x (^ ($ a) b))"},
		{`BEGIN { x = -$a }`, "(= x (u- ($ a)))"},
		{`BEGIN { x = a - -b }`, "(= x (- a (u- b)))"},
		{`BEGIN { x = a++ + b }`, "(= x (+ (post++ a) b))"},
		{`BEGIN { x = a = b = c }`, "(= x (= a (= b c)))"},
		{`BEGIN { x = a ? b : c ? d : e }`, "(= x (?: a b (?: c d e)))"},
		{`BEGIN { x = a || b && c }`, "(= x (|| a (&& b c)))"},
		{`BEGIN { x = a ~ b c }`, "(= x (~ a (concat b c)))"},
		{`BEGIN { x = a < b c }`, "(= x (< a (concat b c)))"},
		{`BEGIN { x = a b < c }`, "(= x (< (concat a b) c))"},
		{`BEGIN { x = a in arr in arr }`, "(= x (in (in a arr) arr))"},
		{`BEGIN { x = 1 - 2 - 3 }`, "(= x (- (- num num) num))"},
		{`BEGIN { x = a / b * c % d }`, "(= x (% (* (/ a b) c) d))"},
	}
	i := verifIntRange(0, len(cases)-1)
	prog, err := ParseProgram([]byte(cases[i][0]), nil)
	verifAssert(err == nil, "a valid program was rejected")
	if err != nil {
		return
	}
	got := ""
	switch s := prog.Begin[0][0].(type) {
	case *ast.PrintStmt:
		got = "print["
		for k, a := range s.Args {
			if k > 0 {
				got += ","
			}
			got += verifSexp(a)
		}
		got += "]"
		if s.Redirect != lexer.ILLEGAL {
			got += s.Redirect.String() + verifSexp(s.Dest)
		}
	case *ast.ExprStmt:
		got = verifSexp(s.Expr)
	}
	verifAssert(got == cases[i][1], "a construct with a special grouping rule (print redirection, | getline, $, unary minus vs ^, associativity) parsed to a different tree")
}
