package parser

import (
	"strings"
)

// C16 — scalar/array typing is sound, exact and independent of declaration order: for every
// program of a family built from occurrence slots (context, variable, use), ParseProgram
// rejects with a type error exactly when a union-find over the usage constraints finds a
// variable forced to be both scalar and array; the verdict is the same for both orders of
// the function definitions.

// variables: 0 f.p1, 1 f.p2, 2 g.q1, 3 g.q2, 4 global G, 5 global H, 6.. fresh globals
type verifUF struct {
	parent []int
	scalar []bool
	array  []bool
}

func (u *verifUF) find(i int) int {
	for u.parent[i] != i {
		i = u.parent[i]
	}
	return i
}

func (u *verifUF) union(a, b int) {
	ra, rb := u.find(a), u.find(b)
	if ra == rb {
		return
	}
	u.parent[ra] = rb
	u.scalar[rb] = u.scalar[rb] || u.scalar[ra]
	u.array[rb] = u.array[rb] || u.array[ra]
}

func (u *verifUF) conflict() bool {
	for i := range u.parent {
		r := u.find(i)
		if u.scalar[r] && u.array[r] {
			return true
		}
	}
	return false
}

var verifVarNames = []string{"p1", "p2", "q1", "q2", "G", "H"}

// slot alphabet: (context, variable) pairs and uses.  Contexts: 0 = f(p1,p2), 1 = g(q1,q2), 2 = BEGIN,
// 3 = h() (a function without parameters, called from BEGIN).
type verifSlot struct{ ctx, v int }

var verifSlotPlaces = []verifSlot{{0, 0}, {0, 1}, {0, 4}, {1, 2}, {1, 4}, {2, 4}, {2, 5}, {3, 4}, {3, 5}}

func VerifC16Verdict() {
	nslots := verifIntRange(1, 3)
	thorough := verifBound(0, 1) == 1
	uf := &verifUF{}
	for i := 0; i < 6+nslots; i++ {
		uf.parent = append(uf.parent, i)
		uf.scalar = append(uf.scalar, false)
		uf.array = append(uf.array, false)
	}
	bodies := []string{"", "", "", ""} // f, g, BEGIN, h
	usedP2, usedQ2 := false, false     // second parameters exist only when something refers to them
	for s := 0; s < nslots; s++ {
		// quick tier: the first two slots range over 4 places x 5 uses, the last slot is a direct use at any place;
		// thorough tier: every slot ranges over all 9 places x 7 uses
		places := verifSlotPlaces
		uses := []int{0, 1, 2, 3, 4, 5, 6}
		if !thorough {
			if s < 2 && nslots == 3 {
				places = []verifSlot{{0, 0}, {1, 2}, {2, 4}, {3, 4}}
				uses = []int{0, 1, 2, 4, 5}
			} else if nslots == 3 {
				uses = []int{0, 1}
			}
		}
		place := places[verifIntRange(0, len(places)-1)]
		ctx, v := place.ctx, place.v
		name := verifVarNames[v]
		usedP2 = usedP2 || v == 1
		usedQ2 = usedQ2 || v == 3
		fresh := "u" + string([]byte{byte('0' + s)})
		var stmt string
		switch uses[verifIntRange(0, len(uses)-1)] {
		case 0:
			stmt = name + " = 1"
			uf.scalar[uf.find(v)] = true
		case 1:
			stmt = name + "[1] = 1"
			uf.array[uf.find(v)] = true
		case 2:
			stmt = "f(" + name + ")"
			uf.union(v, 0)
		case 3:
			stmt = "f(" + fresh + ", " + name + ")"
			usedP2 = true
			uf.union(6+s, 0)
			uf.union(v, 1)
		case 4:
			stmt = "g(" + name + ")"
			uf.union(v, 2)
		case 5:
			// an expression argument forces the parameter to be a scalar (the variable slot is unused here)
			stmt = "g(1)"
			uf.scalar[uf.find(2)] = true
		default:
			stmt = "f(" + fresh + ", $1)"
			usedP2 = true
			uf.union(6+s, 0)
			uf.scalar[uf.find(1)] = true
		}
		bodies[ctx] += stmt + "; "
	}
	fparams, gparams := "p1", "q1"
	if usedP2 {
		fparams = "p1, p2"
	}
	if usedQ2 {
		gparams = "q1, q2"
	}
	fsrc := "function f(" + fparams + ") { " + bodies[0] + "}\n"
	gsrc := "function g(" + gparams + ") { " + bodies[1] + "}\n"
	hsrc := "function h() { " + bodies[3] + "}\n"
	bsrc := "BEGIN { " + bodies[2] + "h() }\n"
	want := uf.conflict()
	orders := []string{fsrc + gsrc + hsrc + bsrc, bsrc + hsrc + gsrc + fsrc}
	if !thorough && nslots == 3 {
		orders = orders[:1] // both orders are tried for 1-2 slots (and for 3 in the thorough tier)
	}
	for _, src := range orders {
		_, err := ParseProgram([]byte(src), nil)
		rejected := err != nil
		if rejected {
			msg := err.Error()
			verifAssert(strings.Contains(msg, "can't") || strings.Contains(msg, "array") || strings.Contains(msg, "scalar"), "a program of the typing family was rejected for a reason other than scalar/array typing: "+msg)
		}
		verifReach("parsed")
		verifAssert(rejected == want, "scalar/array verdict differs from the usage constraints (rejected iff some variable would have to be both scalar and array), or depends on the order of the definitions")
	}
}

// accepted programs: arrays are shared by reference and scalars copied, whatever the declaration order
func VerifC16Behaviour() {
	progs := []string{
		"function set(a, k) { a[k] = 1 }\nfunction fwd(b, k) { set(b, k) }\nBEGIN { fwd(arr, \"x\"); r = (\"x\" in arr) }",
		"function fwd(b, k) { set(b, k) }\nfunction set(a, k) { a[k] = 1 }\nBEGIN { fwd(arr, \"x\"); r = (\"x\" in arr) }",
		"BEGIN { fwd(arr, \"x\"); r = (\"x\" in arr) }\nfunction fwd(b, k) { set(b, k) }\nfunction set(a, k) { a[k] = 1 }",
		"function inc(s) { s = s + 1; return s }\nBEGIN { v = 5; w = inc(v); r = (v == 5 && w == 6) }",
		"function rec(a, n) { if (n > 0) { a[n] = n; rec(a, n - 1) } }\nBEGIN { rec(arr, 2); r = ((1 in arr) && (2 in arr)) }",
		"function unused(a, b) { return 1 }\nBEGIN { r = unused() }",
	}
	i := verifIntRange(0, len(progs)-1)
	prog, err := ParseProgram([]byte(progs[i]), nil)
	verifAssert(err == nil && prog != nil, "an accepted program of the by-reference family was rejected")
}
